"""C10 - message framing survives any segmentation and detects any truncation.

Contracts on pyworkers.remote.send_msg / recv_msg (and whatever private helpers they call, which are
inlined) against a ghost byte stream.  The transport is the assumed contract T2 of socket.recv: every
call may return ANY non-empty prefix of the unread stream (of length <= n), so a proof for this model
covers every segmentation, down to one byte per read; the stream's end is where recv returns b''.
"""
import z3

from pyvc import smt, extlib
from pyvc.smt import Bytes
from pyvc.values import *  # noqa
from pyvc.contracts import Contract, Loop
from pyvc.extlib import be32, be32dec, pickle_b, unpickle

ID = 'C10'
MIN_OBLIGATIONS = 15
TRUSTED = [extlib.TEXT['struct'], extlib.TEXT['pickle'],
           'T2 socket.recv(n) returns any prefix of the unread stream with 1..n bytes, or b"" exactly at end of stream '
           '(or when n <= 0); may raise ConnectionResetError; sendall delivers all bytes in order or raises']
ASSUMPTIONS = [
    'the byte stream a receiver sees is a prefix of what the sender wrote (TCP, T2); bytes are not corrupted',
    'remote_pickle.loads(remote_pickle.dumps(m)) == m for the messages considered (T6); an unpicklable payload may raise any Exception from loads/dumps, which the contract lets escape',
    'L5 (a sequence of messages is received as the same sequence) is the composition of L1 and L2 by induction on the number of messages: L2 leaves the stream position exactly after the frame, which is the precondition of the next L2; the induction itself is not machine-checked',
    'termination (L4) is proved as: every loop iteration decreases a non-negative integer variant; blocking inside one recv call is the transport\'s concern (T2/T9)',
]
ABSTRACTED = ['logger.* calls: no-op']

B = Bytes

# self-test mutants (in-memory; each must be refuted)
MUTANTS = [
    ('pyworkers/remote.py', "    while len(data) < size:\n", "    if len(data) < size:\n", 'read-exactly loop replaced by a single read'),
    ('pyworkers/remote.py', "        if not chunk:\n            raise ConnectionClosedError()\n", "", 'end-of-stream check removed (spins at EOF)'),
    ('pyworkers/remote.py', "        chunk = sock.recv(size - len(data))\n", "        chunk = sock.recv(size)\n", 'asks for more than is left of the frame (may swallow the next frame)'),
    ('pyworkers/remote.py', "        data += chunk\n    return data", "        data = chunk\n    return data", 'keeps only the last chunk'),
    ('pyworkers/remote.py', "struct.pack('!I', len(data))", "struct.pack('!I', len(data) + 1)", 'wrong length prefix'),
    ('pyworkers/remote.py', "        sock.sendall(data_len + data)\n", "        sock.sendall(data + data_len)\n", 'length prefix after the body'),
    ('pyworkers/remote.py', "_recv_exactly(sock, 4))[0]", "_recv_exactly(sock, 4))[0] - 1", 'body length off by one'),
    ('pyworkers/remote.py', "    msg = remote_pickle.loads(data, extra_kwargs=state_overwrites)\n    return msg", "    msg = remote_pickle.loads(data, extra_kwargs=state_overwrites)\n    return None", 'returns None instead of the message'),
    ('pyworkers/remote.py', "    except (BrokenPipeError, struct.error, ConnectionResetError, ConnectionAbortedError, OSError) as e:\n        raise ConnectionClosedError() from e\n\n    logger.abusive('Receiving", "    except (BrokenPipeError, struct.error, ConnectionAbortedError) as e:\n        raise ConnectionClosedError() from e\n\n    logger.abusive('Receiving", 'header read no longer maps ConnectionResetError'),
]


def cat(*xs):
    return z3.Concat(*xs)


def accumulator_shape(fi):
    """How the read-exactly helper accumulates what it has read, read off its AST, so that the loop invariant follows a refactoring of the
    accumulator instead of naming one particular local.  The invariant is still CHECKED (on entry, preserved), never assumed: a wrong guess is a failed
    proof, not an unsound one.  Returns (expression text for the bytes read so far, {local: kind} to declare, [integer locals counting them])"""
    import ast
    rets = [n for n in ast.walk(fi.node) if isinstance(n, ast.Return) and n.value is not None]
    loops = [n for n in ast.walk(fi.node) if isinstance(n, ast.While)]
    if not rets or len(loops) != 1:
        return None
    # several return statements: the one after the loop decides (an early return of a complete first read is checked against the postcondition as it is)
    after = [r for r in rets if r.lineno > loops[0].end_lineno] if loops else rets
    if len(rets) != 1 and len(after) == 1:
        rets = after
    v = rets[0].value
    # `tmp = <expr>; return tmp` (a temporary assigned once, after the loop): the shape is that of <expr>
    if isinstance(v, ast.Name):
        defs = [a for a in ast.walk(fi.node) if isinstance(a, ast.Assign) and len(a.targets) == 1 and isinstance(a.targets[0], ast.Name) and a.targets[0].id == v.id]
        aug = [a for a in ast.walk(fi.node) if isinstance(a, ast.AugAssign) and isinstance(a.target, ast.Name) and a.target.id == v.id]
        if len(defs) == 1 and not aug and defs[0].lineno > loops[0].end_lineno:
            v = defs[0].value
    acc, kinds, extra_inv, buffers = None, {}, [], []
    def is_count(e, sources):
        # len(chunk), sock.recv_into(...), or a local assigned from one of them in the loop
        if isinstance(e, ast.Name):
            return e.id in sources
        if isinstance(e, ast.Call):
            f = e.func
            return (isinstance(f, ast.Name) and f.id == 'len') or (isinstance(f, ast.Attribute) and f.attr == 'recv_into')
        return False
    sources = {a.targets[0].id for a in ast.walk(loops[0]) if isinstance(a, ast.Assign) and len(a.targets) == 1 and isinstance(a.targets[0], ast.Name)
               and is_count(a.value, set())}
    counters = []
    for n in ast.walk(loops[0]):
        # n += len(chunk)  /  n += sock.recv_into(...)  /  k = sock.recv_into(...); n += k: an integer local that counts the bytes read
        if isinstance(n, ast.AugAssign) and isinstance(n.op, ast.Add) and isinstance(n.target, ast.Name) and is_count(n.value, sources):
            counters.append(n.target.id)
    if isinstance(v, ast.Name):
        acc = v.id
    elif isinstance(v, ast.Call) and isinstance(v.func, ast.Name) and v.func.id == 'bytes' and len(v.args) == 1 and isinstance(v.args[0], ast.Name):
        name = v.args[0].id
        alloc = [a for a in ast.walk(fi.node) if isinstance(a, ast.Assign) and len(a.targets) == 1 and isinstance(a.targets[0], ast.Name) and a.targets[0].id == name
                 and isinstance(a.value, ast.Call) and isinstance(a.value.func, ast.Name) and a.value.func.id == 'bytearray']
        if alloc and alloc[0].value.args and counters:
            # a buffer allocated at its final size and filled in place: what has been read is its first <counter> bytes
            acc = f'prefix({name}, {counters[0]})'
            extra_inv = [f'len({name}) == {ast.unparse(alloc[0].value.args[0])}', f'{counters[0]} >= 0', f'{counters[0]} <= len({name})']
            buffers = [name]
            counters = []
        elif alloc:
            acc = f'bytes_of({name})'          # a bytearray that grows
            buffers = [name]
        else:
            acc = name
    elif isinstance(v, ast.Call) and isinstance(v.func, ast.Attribute) and v.func.attr == 'join' and isinstance(v.func.value, ast.Constant) \
            and v.func.value.value == b'' and len(v.args) == 1 and isinstance(v.args[0], ast.Name):
        acc = f'joined({v.args[0].id})'
        kinds[v.args[0].id] = 'symlist'
    if acc is None:
        return None
    return acc, kinds, counters, extra_inv, buffers


def setup_complete(ex, env):
    """the unread stream starts with one complete frame be32(n) ++ body, followed by anything"""
    ac = ex.abs_classes['Socket']
    s = env['sock']
    hdr = ex.fresh('hdr', B)
    body = ex.fresh('body', B)
    rest0 = ex.fresh('rest0', B)
    P = ex.fresh('P', B)
    ac.set(ex, s, 'consumed', P)
    ac.set(ex, s, 'unread', cat(hdr, body, rest0))
    ac.set(ex, s, 'err', z3.BoolVal(False))
    ac.set(ex, s, 'reads', z3.IntVal(0))
    ex.assume(z3.Length(hdr) == 4)
    n = be32dec(hdr)
    ex.assume(z3.And(n >= 1, n < 2 ** 32))          # the body of a frame written by send_msg is a pickle: never empty (T6)
    ex.assume(be32(n) == hdr)
    ex.assume(z3.Length(body) == n)
    env.update(hdr=VBytes(hdr), body=VBytes(body), rest0=VBytes(rest0), P=VBytes(P))


def setup_truncated(ex, env):
    """the stream ends strictly inside a frame (any truncation offset, header or body)"""
    ac = ex.abs_classes['Socket']
    s = env['sock']
    T = ex.fresh('T', B)
    P = ex.fresh('P', B)
    hdr = ex.fresh('hdr', B)
    part = ex.fresh('part', B)
    ac.set(ex, s, 'consumed', P)
    ac.set(ex, s, 'unread', T)
    ac.set(ex, s, 'err', z3.BoolVal(False))
    ac.set(ex, s, 'reads', z3.IntVal(0))
    in_header = z3.Length(T) < 4
    in_body = z3.And(T == cat(hdr, part), z3.Length(hdr) == 4, z3.Length(part) < be32dec(hdr))
    ex.assume(z3.Or(in_header, in_body))
    env.update(T=VBytes(T), P=VBytes(P), hdr=VBytes(hdr), part=VBytes(part))


def build(ex):
    extlib.install_common(ex)
    ex.spec_functions['unpickle'] = lambda se, b: VSym(unpickle(b.e))
    ex.spec_functions['frame'] = lambda se, m: VBytes(cat(be32(z3.Length(pickle_b(lower(m, ex)))), pickle_b(lower(m, ex))))
    ex.spec_functions['picklen'] = lambda se, m: VInt(z3.Length(pickle_b(lower(m, ex))))

    send = Contract(
        'pyworkers.remote.send_msg', name='C10.L1 send_msg writes exactly one frame', lid='L1',
        params={'sock': ('abs', 'Socket'), 'msg': 'any', 'comment': 'none'},
        ensures=['sock.sent == old(sock.sent) + frame(msg)'],
        raises={'ConnectionClosedError': None, 'struct.error': 'picklen(msg) >= 4294967296', 'AnyException': None},
        raises_only=['ConnectionClosedError', 'struct.error', 'AnyException'],
        options={'dumps_raises': ['AnyException'], 'send_errors': ['BrokenPipeError', 'ConnectionResetError', 'OSError']},
        modifies=['abs:Socket.sent'])

    # L1i: the same function under ONE asynchronous exception (a graceful terminate: WorkerTerminatedError raised in the sending thread) at every statement
    # boundary: a message is handed to the kernel by ONE call, so whatever the landing point the wire holds whole frames only - nothing of this message, or all
    # of it.  A terminate landing between two partial writes would leave a stump that the peer takes for the start of the next message (C06: the stream of a
    # terminated persistent remote worker must still end properly).
    from pyvc.contracts import InjectCfg
    send_i = Contract(
        'pyworkers.remote.send_msg', name='C10.L1i send_msg is atomic with respect to a terminate landing inside it: the wire holds nothing of the message or all of it', lid='L1i',
        params={'sock': ('abs', 'Socket'), 'msg': 'any', 'comment': 'none'},
        all_exits=['sock.sent == old(sock.sent) or sock.sent == old(sock.sent) + frame(msg)'],
        raises={'ConnectionClosedError': None, 'struct.error': None, 'AnyException': None, 'WorkerTerminatedError': None},
        raises_only=['ConnectionClosedError', 'struct.error', 'AnyException', 'WorkerTerminatedError'],
        options={'dumps_raises': ['AnyException'], 'send_errors': ['BrokenPipeError', 'ConnectionResetError', 'OSError']},
        inject=InjectCfg(['pyworkers.remote.send_msg'], budget=1, kinds=('wte',), split_store=True),
        modifies=['abs:Socket.sent'])

    # loop contract of the body-reading loop (ordinal 0 in recv_msg or in the helper it uses)
    recv_loops_complete = {0: Loop(
        invariant=['data_len >= 0',
                   'sock.consumed == P + hdr + data',
                   'data + sock.unread == body + rest0',
                   'data_len == len(body) - len(data)',
                   'not sock.err'],
        variant='data_len',
        modifies=['abs:Socket.consumed', 'abs:Socket.unread', 'abs:Socket.reads', 'abs:Socket.err'])}

    recv_ok = Contract(
        'pyworkers.remote.recv_msg', name='C10.L2 recv_msg returns the framed message under every segmentation', lid='L2',
        params={'sock': ('abs', 'Socket'), 'state_overwrites': 'none', 'comment': 'none'},
        setup=setup_complete,
        ensures=['result == unpickle(body)', 'sock.unread == rest0', 'sock.consumed == P + hdr + body'],
        raises={'ConnectionClosedError': 'sock.err', 'AnyException': None},
        raises_only=['ConnectionClosedError', 'AnyException'],
        loops=recv_loops_complete,
        options={'sock_errors': ['ConnectionResetError'], 'loads_raises': ['AnyException']})

    recv_loops_trunc = {0: Loop(
        invariant=['data_len >= 0',
                   'data + sock.unread == part',
                   'data_len == be32dec_(hdr) - len(data)'],
        variant='data_len',
        modifies=['abs:Socket.consumed', 'abs:Socket.unread', 'abs:Socket.reads', 'abs:Socket.err'])}
    ex.spec_functions['be32dec_'] = lambda se, b: VInt(be32dec(b.e))

    recv_trunc = Contract(
        'pyworkers.remote.recv_msg', name='C10.L3/L4 recv_msg raises ConnectionClosedError on any truncation and terminates', lid='L3',
        params={'sock': ('abs', 'Socket'), 'state_overwrites': 'none', 'comment': 'none'},
        setup=setup_truncated,
        ensures=['False'],
        raises={'ConnectionClosedError': None},
        raises_only=['ConnectionClosedError'],
        loops=recv_loops_trunc,
        options={'sock_errors': ['ConnectionResetError'], 'loads_raises': ['AnyException']})
    HELPER = 'pyworkers.remote._recv_exactly'
    if HELPER in ex.repo.funcs:
        # modular shape: recv_msg reads header and body through a read-exactly helper.  The helper gets its own
        # contract (verified against its body, lemma L0) and recv_msg is checked against that contract, not the body.
        shape = accumulator_shape(ex.repo.func(HELPER))
        ACC, KINDS, COUNTERS, EXTRA_INV, BUFFERS = shape if shape is not None else ('data', {}, [], [], [])

        def buf_seq(se, b):
            from pyvc.values import HBuf
            h = se.ex.heap[b.addr] if isinstance(b, VRef) else None
            if not isinstance(h, HBuf):
                from pyvc.core import Undecided
                raise Undecided('prefix()/bytes_of() of something that is not a bytearray')
            return h.seq
        ex.spec_functions['bytes_of'] = lambda se, b: VBytes(buf_seq(se, b))

        def prefix(se, b, n):
            s = buf_seq(se, b)
            pre, rest = se.ex.interp.take_drop(s, z3.If(n.e < 0, 0, z3.If(n.e > z3.Length(s), z3.Length(s), n.e)))
            return VBytes(pre)
        ex.spec_functions['prefix'] = prefix
        from pyvc.interp_data import bjoin_f

        def joined(se, l):
            h = se.ex.heap[l.addr] if isinstance(l, VRef) else None
            if h is None or not hasattr(h, 'seq'):
                from pyvc.core import Undecided
                raise Undecided('joined() of something that is not a symbolic list')
            se.ex.assume(bjoin_f(z3.Empty(smt.SeqVal)) == z3.Empty(B))
            return VBytes(bjoin_f(h.seq))
        ex.spec_functions['joined'] = joined
        helper = Contract(
            HELPER, name='C10.L0 _recv_exactly returns exactly `size` bytes of the stream or raises at end of stream',
            lid='L0',
            params={'sock': ('abs', 'Socket'), 'size': 'int'},
            # size >= 1: the helper is called for the 4-byte header and for the body of a frame, and a frame written by send_msg has a body of at least
            # one byte (a pickle is never empty, T6); what it does for size == 0 is outside the property
            requires=['size >= 1', 'not sock.err'],
            returns='bytes',
            ensures=['len(result) == size',
                     'sock.consumed == old(sock.consumed) + result',
                     'result + sock.unread == old(sock.unread)',
                     'not sock.err'],
            raises={'ConnectionClosedError': 'len(old(sock.unread)) < size and not sock.err',
                    'ConnectionResetError': 'sock.err'},
            raises_only=['ConnectionClosedError', 'ConnectionResetError'],
            modifies=['abs:Socket.consumed', 'abs:Socket.unread', 'abs:Socket.reads', 'abs:Socket.err'],
            loops={0: Loop(invariant=[f'len({ACC}) <= size',
                                      f'sock.consumed == old(sock.consumed) + {ACC}',
                                      f'{ACC} + sock.unread == old(sock.unread)',
                                      'not sock.err'] + [f'{n} == len({ACC})' for n in COUNTERS] + list(EXTRA_INV),
                           variant=f'size - len({ACC})',
                           locals=dict(KINDS),
                           modifies=['abs:Socket.consumed', 'abs:Socket.unread', 'abs:Socket.reads', 'abs:Socket.err'] + sorted(KINDS) + list(BUFFERS))},
            options={'sock_errors': ['ConnectionResetError'], '__local_kinds__': {(HELPER, n): k for n, k in KINDS.items()}},
            setup=lambda ex_, env: ex_.abs_classes['Socket'].set(ex_, env['sock'], 'err', z3.BoolVal(False)))
        ex.contracts[HELPER] = helper
        ex.use_contract.add(HELPER)
        recv_ok.loops = {}
        recv_trunc.loops = {}
        return [(send, None), (send_i, None), (helper, None), (recv_ok, None), (recv_trunc, None)]
    return [(send, None), (send_i, None), (recv_ok, None), (recv_trunc, None)]


# ------------------------------------------------------------------------------ replay on the real code
def scenario_from(ob):
    """counter-model -> concrete stream + segmentation for the real recv_msg"""
    m = ob.get('model') or {}

    def ln(name):
        v = m.get(name)
        return v.get('len') if isinstance(v, dict) else None
    sizes = []
    for name in ['chunk'] + [f'chunk!{i}' for i in range(1, 8)]:
        l = ln(name)
        if l is not None:
            sizes.append(max(1, l))
    sc = {'msgs': [['hello', 1], [None, 'x' * 50]], 'sizes': sizes, 'trunc': None, 'search': True}
    if 'L3' in ob['lemma'] or ln('T') is not None:
        t = ln('T')
        # the model truncates after |T| bytes of a frame; map onto the real first frame (header 4 bytes + body)
        sc['msgs'] = [['hello', 1]]
        sc['trunc'] = min(t if t is not None else 6, 4 + 10)
        if sc['trunc'] >= 4:
            sc['trunc'] = max(sc['trunc'], 5)
    return sc


def replay(ob, repo):
    from pyvc.native import run_script
    sc = scenario_from(ob)
    sc['seed'] = int(__import__('os').environ.get('VERIF_SEED', '0'))
    r = run_script('c10_native.py', sc, repo, timeout=120)
    return bool(r.get('violates')), r


def replay_file(path, repo):
    import json
    d = json.load(open(path))
    from pyvc.native import run_script
    sc = (d.get('replay') or {}).get('scenario') or {'msgs': [['hello', 1]], 'sizes': [], 'trunc': None, 'search': True}
    r = run_script('c10_native.py', sc, repo, timeout=120)
    print(json.dumps(r, indent=1, default=str))
    if r.get('violates'):
        print(f'VIOLATION property=C10 replay={path}')
        return 1
    return 0
