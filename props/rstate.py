"""Contracts for the remote-pickle restore machinery (pyworkers/_remote_pickle/state.py, remote_pickler_3_6.py): cones of C14 and C15.

Abstract view of the per-thread state:  stack = sequence of frames (parent_i, name, patches),  iter = index of the frame of the object whose
state is being restored (-1: none).  Frames are modelled objects (fields in arrays keyed by identity) created by the real code through the
real call RemoteState._patches_t(...); the thread-local object is a heap object whose attributes may be absent.

The pickle machine itself is trusted (T5): for an opt-in object it calls the reducer's callable (recreate_obj_and_patch_setstate) BEFORE it
loads the object's state - hence before the opt-in objects inside that state are recreated and restored - and it calls obj.__setstate__(state)
(the one-shot wrapper installed by recreate...) AFTER them."""
import z3

from pyvc import smt, extlib
from pyvc.smt import Val, ValList, SeqVal
from pyvc.values import *  # noqa
from pyvc.contracts import Contract, Loop, AbsClass
from pyvc.core import PyRaise, Undecided
from pyvc.interp import _Maybe
from .C13 import optin, RP, SRGS

RS = 'pyworkers._remote_pickle.state.RemoteState'
CTX = RS + '.context'
T5 = ('T5 the pickle machine: the reducer\'s callable runs before the state of the object is loaded, obj.__setstate__(state) after it; '
      'BUILD is emitted for every state that is not None; the objects inside a state are restored in the order of the state\'s items')
contains_optin = z3.Function('contains_optin', Val, smt.Bool)      # the value holds an opt-in object that is not behind another opt-in object


def frame_class():
    def g(f):
        return lambda I, o: I.ex.abs_classes['Frame'].get(I.ex, o, f)
    return AbsClass('Frame', fields={'parent_i': smt.Int, 'name': Val, 'patches': Val, 'alive': smt.Bool},
                    attrs={'parent_i': lambda I, o: VInt(g('parent_i')(I, o)), 'name': lambda I, o: VSym(g('name')(I, o)),
                           'patches': lambda I, o: patches_value(I.ex, g('patches')(I, o))},
                    text='PatchesInfo(parent_i, name, patches): one frame of the per-thread restore stack')


def patches_value(ex, term):
    """a frame's patches field as a value: the heap dict it refers to when that is known"""
    s = smt.simp(term)
    if z3.is_app(s) and s.decl().name() == 'v_ref' and z3.is_int_value(s.arg(0)):
        return VRef(s.arg(0).as_long())
    return VSym(term)


def install(ex):
    extlib.install_common(ex)
    ex.abs_classes['Frame'] = frame_class()


def make_frame_model():
    n = [0]

    def make_frame(ex_, a, k):
        n[0] += 1
        f = VAbs('Frame', ex_.fresh(f'frame{n[0]}', Val))
        ac = ex_.abs_classes['Frame']
        ex_.assume(z3.Not(ac.get(ex_, f, 'alive')))          # a new object: its identity differs from that of every existing frame
        ac.set(ex_, f, 'alive', z3.BoolVal(True))
        pi, _ = ex_.interp.as_num(a[0], None)
        ac.set(ex_, f, 'parent_i', pi)
        ac.set(ex_, f, 'name', lower(a[1], ex_))
        ac.set(ex_, f, 'patches', lower(a[2], ex_))
        ex_.ghost.setdefault('frames_made', []).append(f)
        return f
    return VModel('PatchesInfo', make_frame)


def local_state(ex, env, stack=None, it=None, unused=None):
    """the thread-local object with a symbolic stack and iter; returns its reference"""
    I = ex.interp
    S = stack if stack is not None else ex.alloc(HSymList(ex.fresh('stack', SeqVal)))
    if isinstance(S, VRef) and isinstance(ex.heap[S.addr], HSymList):
        ex.heap[S.addr].elem_hint = ('abs', 'Frame')
    itv = it if it is not None else I.sym('iter', 'int')
    loc = ex.alloc(HObj('threading.local', {'stack': S, 'iter': itv, 'unused': unused if unused is not None else I.sym('unused', 'bool')}))
    ex.class_attrs[(RS, '_active_contexts')] = loc
    ex.class_attrs[(RS, '_patches_t')] = make_frame_model()
    env.update(local=loc, stack=S, it=itv)
    return loc


def stack_seq(ex, env, old=False):
    h = (ex.old['heap'] if old else ex.heap)
    return h[h[env['local'].addr].attrs['stack'].addr].seq


def iter_term(ex, env, old=False):
    h = (ex.old['heap'] if old else ex.heap)
    return h[env['local'].addr].attrs['iter'].e


def fld(ex, frame_term, f):
    return z3.Select(ex.abs_classes['Frame'].arr(ex, f), Val.vakey(frame_term))


def getter_hooks(ex, env):
    """the read-only accessors of the current frame, used by their contracts (proved as lemmas Lg-*): current_patches() is the patches of
    stack[iter] (an empty dict when iter < 0), parent_patches() those of the frame stack[iter].parent_i (an empty dict when that is < 0),
    current_child_name() the name field of stack[iter]"""
    return {RS + '.current_patches': lambda I, fi, a, k, n, s: env['D'],
            RS + '.parent_patches': lambda I, fi, a, k, n, s: env['DP'],
            RS + '.current_child_name': lambda I, fi, a, k, n, s: env['cname']}


# ------------------------------------------------------------------------------------------------ lemmas
def getter_lemmas(ex, prop):
    """Lg: get_current_patches_info / get_current_patches_parent_info / current_patches against the abstract view"""
    out = []

    def setup(ex_, env):
        local_state(ex_, env)
        S = ex_.heap[env['stack'].addr].seq
        it = env['it'].e
        ex_.assume(z3.And(it >= -1, it < z3.Length(S)))
        env['cls'] = VClass(ex_.repo.cls(RS))

    def cur_info(c):
        ex_ = c.ex
        S, it = stack_seq(ex_, c.env), iter_term(ex_, c.env)
        r = c.env['result']
        rt = lower(r, ex_)
        empty_default = z3.BoolVal(False)
        if isinstance(r, VAbs):
            p = patches_value(ex_, ex_.abs_classes['Frame'].get(ex_, r, 'patches'))
            is_empty = isinstance(p, VRef) and isinstance(ex_.heap[p.addr], HDict) and not ex_.heap[p.addr].items
            empty_default = z3.And(ex_.abs_classes['Frame'].get(ex_, r, 'parent_i') == -1, ex_.abs_classes['Frame'].get(ex_, r, 'name') == Val.v_none, z3.BoolVal(bool(is_empty)))
        return z3.If(it < 0, empty_default, rt == S[it])
    cur_info.__doc__ = 'the current frame is stack[iter]; with iter < 0 it is a fresh (-1, None, {}) frame'
    out.append((Contract(RS + '.get_current_patches_info', lid='Lg-info', name=f'{prop}.Lg-info get_current_patches_info is stack[iter] or the empty default',
                         params={'cls': ('const', None)}, self_class=RS, setup=setup, ensures=[cur_info], raises={}, raises_only=[]), None))

    def wf_setup(ex_, env):
        setup(ex_, env)
        S = ex_.heap[env['stack'].addr].seq
        it = env['it'].e
        # well-formed frame: its parent index points into the stack (or is -1)
        ex_.assume(z3.Implies(it >= 0, z3.And(fld(ex_, S[it], 'parent_i') >= -1, fld(ex_, S[it], 'parent_i') < z3.Length(S))))

    def parent_info(c):
        ex_ = c.ex
        S, it = stack_seq(ex_, c.env), iter_term(ex_, c.env)
        r = c.env['result']
        rt = lower(r, ex_)
        pi = z3.If(it < 0, -1, fld(ex_, S[it], 'parent_i'))
        return z3.Implies(z3.And(pi >= 0, pi < z3.Length(S)), rt == S[pi])
    parent_info.__doc__ = 'the parent frame is stack[stack[iter].parent_i] whenever that index is valid'
    out.append((Contract(RS + '.get_current_patches_parent_info', lid='Lg-parent', name=f'{prop}.Lg-parent get_current_patches_parent_info follows parent_i',
                         params={'cls': ('const', None)}, self_class=RS, setup=wf_setup, ensures=[parent_info], raises={}, raises_only=[]), None))
    return out


def context_lemmas(ex, prop):
    """L1: RemoteState.context - every loads starts from a clean per-thread state, whatever an earlier (failed) loads left behind"""
    out = []
    repo = ex.repo

    def ctx_obj(ex_, env, content=None):
        d = content if content is not None else ex_.alloc(HSymDict(ex_.fresh('ctx_dom', z3.ArraySort(Val, smt.Bool)), ex_.fresh('ctx_map', z3.ArraySort(Val, Val))))
        env['self'] = ex_.alloc(HObj(repo.cls(CTX), {'__dictdata__': d}))
        env['content'] = d
        ex_.ghost['__dict_subclass_symbolic__'] = True

    def init_setup(ex_, env):
        I = ex_.interp
        # residue of an earlier loads on this thread: anything (a failed loads leaves stack and iter behind)
        residue = {'stack': _Maybe(ex_.fresh('has_stack', smt.Bool), ex_.alloc(HSymList(ex_.fresh('old_stack', SeqVal)))),
                   'iter': _Maybe(ex_.fresh('has_iter', smt.Bool), I.sym('old_iter', 'int')),
                   'unused': _Maybe(ex_.fresh('has_unused', smt.Bool), I.sym('old_unused', 'bool'))}
        loc = ex_.alloc(HObj('threading.local', residue))
        ex_.class_attrs[(RS, '_active_contexts')] = loc
        env['local'] = loc
        ctx_obj(ex_, env, ex_.alloc(HSymDict(z3.EmptySet(Val), ex_.fresh('m0', z3.ArraySort(Val, Val)))))
        P = ex_.alloc(HSymDict(ex_.fresh('patches_dom', z3.ArraySort(Val, smt.Bool)), ex_.fresh('patches_map', z3.ArraySort(Val, Val))))
        env['args'] = VTuple([P])
        env['kwargs'] = ex_.alloc(HDict({}))
        env['P'] = P

    def clean(c):
        ex_ = c.ex
        a = ex_.heap[c.env['local'].addr].attrs
        st, it, un = a.get('stack'), a.get('iter'), a.get('unused')
        ok = isinstance(st, VRef) and isinstance(ex_.heap[st.addr], HList) and not ex_.heap[st.addr].items and isinstance(it, VInt) and isinstance(un, VBool)
        if not ok:
            return z3.BoolVal(False)
        return z3.And(it.e == -1, un.e)
    clean.__doc__ = 'the per-thread state is reset: stack == [], iter == -1, unused == True - whatever was there before'

    def holds_patches(c):
        ex_ = c.ex
        d = ex_.heap[ex_.heap[c.env['self'].addr].attrs['__dictdata__'].addr]
        p = ex_.heap[c.env['P'].addr]
        return z3.And(d.dom == p.dom, d.map == p.map)
    holds_patches.__doc__ = 'the context holds exactly the patches it was given'
    out.append((Contract(CTX + '.__init__', lid='L1-init', name=f'{prop}.L1-init a new context resets the per-thread state whatever an earlier loads left behind; never raises',
                         params={'self': ('const', None), 'args': ('const', None), 'kwargs': ('const', None)}, self_class=CTX, setup=init_setup,
                         ensures=[clean, holds_patches], raises={}, raises_only=[]), None))

    def enter_setup(ex_, env):
        local_state(ex_, env, stack=ex_.alloc(HList([])), it=VInt(-1), unused=VBool(True))
        ctx_obj(ex_, env)

    def entered(c):
        ex_ = c.ex
        a = ex_.heap[c.env['local'].addr].attrs
        d = ex_.heap[c.env['content'].addr]
        nonempty = d.dom != z3.EmptySet(Val)
        st = ex_.heap[a['stack'].addr]
        if isinstance(st, HList) and not st.items:
            return z3.And(z3.Not(nonempty), a['iter'].e == -1)
        if isinstance(st, HList) and len(st.items) == 1 and isinstance(st.items[0], VAbs):
            f = st.items[0]
            ac = ex_.abs_classes['Frame']
            return z3.And(nonempty, a['iter'].e == 0, ac.get(ex_, f, 'parent_i') == -1, ac.get(ex_, f, 'name') == Val.v_none,
                          ac.get(ex_, f, 'patches') == lower(c.env['self'], ex_))
        return z3.BoolVal(False)
    entered.__doc__ = 'non-empty patches: stack == [(-1, None, the context itself)] and iter == 0; empty patches: stack == [] and iter == -1'
    out.append((Contract(CTX + '.__enter__', lid='L1-enter', name=f'{prop}.L1-enter entering the context pushes the root frame exactly when there are patches',
                         params={'self': ('const', None)}, self_class=CTX, setup=enter_setup, ensures=[entered], raises={}, raises_only=[]), None))

    def exit_setup(ex_, env):
        local_state(ex_, env)
        ctx_obj(ex_, env)
        env['exc'] = VTuple([ex_.interp.sym('exc_type'), ex_.interp.sym('exc_val'), ex_.interp.sym('tb')])

    def exited(c):
        ex_ = c.ex
        a = ex_.heap[c.env['local'].addr].attrs
        failed = lower(c.env['exc'].items[0], ex_) != Val.v_none
        gone = 'stack' not in a and 'iter' not in a
        untouched = 'stack' in a and 'iter' in a
        res = lower(c.env['result'], ex_)
        return z3.And(res == Val.v_none, z3.If(failed, z3.BoolVal(untouched), z3.BoolVal(gone)))
    exited.__doc__ = 'returns None (an exception of the body propagates); after a successful load stack and iter are removed'

    def protocol_done(c):
        ex_ = c.ex
        S0, it0 = stack_seq(ex_, c.env, old=True), iter_term(ex_, c.env, old=True)
        un0 = ex_.old['heap'][c.env['local'].addr].attrs['unused'].e
        return z3.And(lower(c.env['exc'].items[0], ex_) == Val.v_none, z3.Not(un0), z3.Or(it0 != -1, z3.Length(S0) != 0))
    protocol_done.__doc__ = 'AssertionError only after a successful body that used the patches but left frames behind (the restore protocol was broken)'
    out.append((Contract(CTX + '.__exit__', lid='L1-exit', name=f'{prop}.L1-exit leaving the context never masks the exception of a failed load and removes the state after a successful one',
                         params={'self': ('const', None), 'exc': ('const', None)}, self_class=CTX, setup=exit_setup, ensures=[exited],
                         raises={'AssertionError': protocol_done}, raises_only=['AssertionError'], options={'assert_mode': 'fork'}), None))
    return out


def break_patches_lemma(ex, prop, with_protocol_step):
    """L2: break_patches(names) - one frame per name, in order, right behind the current frame; iter moves to the first of them"""
    repo = ex.repo

    def setup(ex_, env):
        local_state(ex_, env)
        S = ex_.heap[env['stack'].addr].seq
        it = env['it'].e
        ex_.assume(z3.And(it >= -1, it < z3.Length(S)))
        env['cls'] = VClass(repo.cls(RS))
        N = ex_.alloc(HSymList(ex_.fresh('names', SeqVal)))
        env['names'] = N
        D = ex_.alloc(HSymDict(ex_.fresh('D_dom', z3.ArraySort(Val, smt.Bool)), ex_.fresh('D_map', z3.ArraySort(Val, Val))))
        env['D'], env['DP'], env['cname'] = D, NONE, NONE
        j0 = ex_.fresh('j0', smt.Int)
        env['j0'] = VInt(j0)
        ex_.ghost['__call_hooks__'] = getter_hooks(ex_, env)
        ex_.ghost['__specenv__'] = env
        ex_.ghost['__isdict_pred__'] = z3.Function('is_dict', Val, smt.Bool)
        ex_.ghost['__local_kinds__'] = {(RS + '.break_patches', 'sub_patches'): 'symlist'}

    def frame_ok(ex_, c, fr_t, j, it0):
        """the frame pushed for names[j]"""
        N = ex_.heap[c.env['names'].addr].seq
        D = ex_.heap[c.env['D'].addr]
        isd = ex_.ghost['__isdict_pred__']
        nm = N[j]
        sub = z3.Select(D.map, nm)
        real = z3.And(z3.Select(D.dom, nm), isd(sub))
        return z3.If(real, z3.And(fld(ex_, fr_t, 'name') == nm, fld(ex_, fr_t, 'patches') == sub, fld(ex_, fr_t, 'parent_i') == it0 + j),
                     z3.And(fld(ex_, fr_t, 'name') == Val.v_none, fld(ex_, fr_t, 'parent_i') == -1))

    def loop_inv(c):
        ex_ = c.ex
        sp = ex_.heap[c.env['sub_patches'].addr].seq
        i = c.env['__i__'].e
        j0 = c.env['j0'].e
        it0 = iter_term(ex_, c.env, old=True)
        return z3.And(z3.Length(sp) == i, z3.Implies(z3.And(j0 >= 0, j0 < i), z3.And(fld(ex_, sp[j0], 'alive'), frame_ok(ex_, c, sp[j0], j0, it0))))
    loop_inv.__doc__ = 'one frame per name visited so far; the j0-th is (it + j0, name, sub-patches) if patches[name] is a dict, else the dummy (-1, None, {})'

    def pushed(c):
        ex_ = c.ex
        S0, it0 = stack_seq(ex_, c.env, old=True), iter_term(ex_, c.env, old=True)
        S1, it1 = stack_seq(ex_, c.env), iter_term(ex_, c.env)
        N = ex_.heap[c.env['names'].addr].seq
        n = z3.Length(N)
        j0 = c.env['j0'].e
        k0 = ex_.fresh('k0', smt.Int)
        return z3.And(z3.Length(S1) == z3.Length(S0) + n, it1 == it0 + z3.If(n > 0, 1, 0),
                      z3.Implies(z3.And(j0 >= 0, j0 < n), frame_ok(ex_, c, S1[it0 + 1 + j0], j0, it0)))
    pushed.__doc__ = ('len(stack) grows by len(names); iter advances by one iff names is non-empty; the frame for names[j0] sits at index it+1+j0 and carries '
                      'patches[names[j0]] when that is a dict (else it is the dummy frame)')

    def rest_kept(c):
        ex_ = c.ex
        S0, it0 = stack_seq(ex_, c.env, old=True), iter_term(ex_, c.env, old=True)
        S1 = stack_seq(ex_, c.env)
        N = ex_.heap[c.env['names'].addr].seq
        n = z3.Length(N)
        q = c.env['j0'].e
        return z3.And(z3.Implies(z3.And(q >= 0, q <= it0), S1[q] == S0[q]),
                      z3.Implies(z3.And(q > it0, q < z3.Length(S0)), S1[q + n] == S0[q]))
    rest_kept.__doc__ = 'every frame that was on the stack is still there, in order (those behind the current frame shifted by len(names))'

    def step_to_first_child(c):
        """protocol step (T5): right after break_patches the pickle machine recreates and restores the opt-in children in the order of `names`;
        if the first of them has no opt-in children of its own, the next call into this module is child_restored() for that child, whose own
        precondition (its first assert) is iter == len(stack) - 1"""
        ex_ = c.ex
        S0, it0 = stack_seq(ex_, c.env, old=True), iter_term(ex_, c.env, old=True)
        S1, it1 = stack_seq(ex_, c.env), iter_term(ex_, c.env)
        n = z3.Length(ex_.heap[c.env['names'].addr].seq)
        at_top = it0 == z3.Length(S0) - 1          # the state in which break_patches is called for a top-level object / by a child being restored
        return z3.Implies(z3.And(at_top, n >= 1), it1 == z3.Length(S1) - 1)
    step_to_first_child.__doc__ = ('called with the current frame on top and at least one opt-in child: the state handed to the restore of the first (leaf) child '
                                   'satisfies child_restored\'s own assertion iter == len(stack) - 1')
    ens = [pushed, rest_kept] + ([step_to_first_child] if with_protocol_step else [])
    return (Contract(RS + '.break_patches', lid='L2', name=f'{prop}.L2 break_patches pushes one frame per opt-in child right behind the current frame',
                     params={'cls': ('const', None), 'names': ('const', None)}, self_class=RS, setup=setup, ensures=ens, raises={}, raises_only=[],
                     loops={0: Loop(invariant=[loop_inv], modifies=['sub_patches', 'abs:Frame.parent_i', 'abs:Frame.name', 'abs:Frame.patches', 'abs:Frame.alive'],
                                    locals={'dummy': 'bool', 'sub': 'any'})},
                     options={'keyerror_forks': False}), None)


def child_restored_lemma(ex, prop):
    """L3: child_restored(obj) - pops the current frame, hands the restored object to the parent's patches under its name"""
    repo = ex.repo

    def setup(ex_, env):
        local_state(ex_, env)
        S = ex_.heap[env['stack'].addr].seq
        it = env['it'].e
        ex_.assume(z3.And(it >= -1, it < z3.Length(S)))
        env['cls'] = VClass(repo.cls(RS))
        env['obj'] = ex_.interp.sym('restored_obj')
        env['D'] = ex_.alloc(HSymDict(ex_.fresh('D_dom', z3.ArraySort(Val, smt.Bool)), ex_.fresh('D_map', z3.ArraySort(Val, Val))))
        DP = ex_.alloc(HSymDict(ex_.fresh('DP_dom', z3.ArraySort(Val, smt.Bool)), ex_.fresh('DP_map', z3.ArraySort(Val, Val))))
        env['DP'] = DP
        env['cname'] = ex_.interp.sym('cname')
        env['q0'] = VInt(ex_.fresh('q0', smt.Int))
        ex_.ghost['__call_hooks__'] = getter_hooks(ex_, env)
        ex_.ghost['__specenv__'] = env

    def popped(c):
        ex_ = c.ex
        S0, it0 = stack_seq(ex_, c.env, old=True), iter_term(ex_, c.env, old=True)
        S1, it1 = stack_seq(ex_, c.env), iter_term(ex_, c.env)
        un = ex_.heap[c.env['local'].addr].attrs['unused']
        q = c.env['q0'].e
        others = z3.And(z3.Implies(z3.And(q >= 0, q < it0), S1[q] == S0[q]), z3.Implies(z3.And(q >= it0, q < z3.Length(S0) - 1), S1[q] == S0[q + 1]))
        return z3.And(z3.Not(ex_.interp.truth(un)) if isinstance(ex_.interp.truth(un), z3.ExprRef) else z3.BoolVal(not ex_.interp.truth(un)),
                      z3.If(it0 >= 0, z3.And(z3.Length(S1) == z3.Length(S0) - 1, it1 == it0 - 1, others), z3.And(z3.Length(S1) == z3.Length(S0), it1 == it0, S1 == S0)))
    popped.__doc__ = ('exactly the current frame stack[iter] is removed - every other frame (arbitrary index q0) stays, in order - and iter steps back by one '
                      '(nothing to remove when iter < 0); the patches count as used')

    def handed_over(c):
        ex_ = c.ex
        dp0 = ex_.old['heap'][c.env['DP'].addr]
        dp1 = ex_.heap[c.env['DP'].addr]
        nm = lower(c.env['cname'], ex_)
        nonempty = dp0.dom != z3.EmptySet(Val)
        k = ex_.fresh('other_key', Val)
        return z3.And(z3.Implies(nonempty, z3.And(z3.Select(dp1.dom, nm), z3.Select(dp1.map, nm) == lower(c.env['obj'], ex_))),
                      z3.Implies(z3.Not(nonempty), z3.And(dp1.dom == dp0.dom, dp1.map == dp0.map)))
    handed_over.__doc__ = 'if the parent has patches, its entry under this child\'s name becomes the restored object (so the parent\'s own merge keeps the child); else nothing changes'

    def precond(c):
        ex_ = c.ex
        S0, it0 = stack_seq(ex_, c.env, old=True), iter_term(ex_, c.env, old=True)
        dp0 = ex_.old['heap'][c.env['DP'].addr]
        nm = lower(c.env['cname'], ex_)
        return z3.Or(it0 != z3.Length(S0) - 1, (dp0.dom != z3.EmptySet(Val)) != smt.truthy_term(nm))
    precond.__doc__ = 'AssertionError exactly when the current frame is not the top of the stack, or when parent patches and child name disagree'
    return (Contract(RS + '.child_restored', lid='L3', name=f'{prop}.L3 child_restored pops the current frame and hands the object to its parent\'s patches',
                     params={'cls': ('const', None), 'obj': ('const', None)}, self_class=RS, setup=setup, ensures=[popped, handed_over],
                     raises={'AssertionError': precond}, raises_only=['AssertionError'], options={'assert_mode': 'fork', 'truth_of_sym': 'nonnone'}), None)


# ------------------------------------------------------------------------------------------------ the one-shot __setstate__ wrapper
WITH_SETSTATE = 'pyworkers.persistent_process.PersistentProcessWorker'      # stand-ins from the repository for "a class that defines __setstate__"
NO_SETSTATE = 'pyworkers.utils.Pipe'                                          # ... and "a class that defines none"
REC = RS + '.recreate_obj_and_patch_setstate'
PSS = REC + '.<patched_setstate>'


def setstate_lemmas(ex, prop):
    repo = ex.repo
    out = []

    def closure_free_vars(fi):
        import ast
        names = set()
        for n in ast.walk(fi.node):
            if isinstance(n, ast.Name):
                names.add(n.id)
        return names

    def mk_patched(kind_cls, dict_state):
        has_ss = kind_cls == WITH_SETSTATE

        def cenv(ex_, frame):
            env = {}
            local_state(ex_, env)
            obj = ex_.alloc(HObj(repo.cls(kind_cls), {'__setstate__': VStr('<one-shot wrapper>')}))
            env['ret'] = obj
            D = ex_.alloc(HSymDict(ex_.fresh('D_dom', z3.ArraySort(Val, smt.Bool)), ex_.fresh('D_map', z3.ArraySort(Val, Val))))
            env['D'], env['cname'] = D, NONE
            env['DP'] = ex_.alloc(HSymDict(ex_.fresh('DP_dom', z3.ArraySort(Val, smt.Bool)), ex_.fresh('DP_map', z3.ArraySort(Val, Val))))     # the parent's patches: a different dict
            ex_.ghost['__penv__'] = env
            ex_.ghost['calls'] = []
            ex_.ghost['child_restored_calls'] = 0
            ss = None
            if has_ss:
                fi, _ = repo.lookup_method(repo.cls(kind_cls), '__setstate__')
                ss = VFunc(fi)
            free = {'ret': obj, 'orig_getstate': ss if ss is not None else NONE, 'orig_setstate': ss if ss is not None else NONE}
            hooks = getter_hooks(ex_, env)
            if has_ss:
                hooks[ss.fi.qualname] = lambda I, fi, a, k, n, s: (ex_.ghost['calls'].append(('setstate', a[0], a[1])), NONE)[1]

            def restored(I, fi, a, k, n, s):
                ex_.ghost['child_restored_calls'] += 1
                ex_.ghost['restored_after'] = len(ex_.ghost['calls'])
                return NONE
            hooks[RS + '.child_restored'] = restored
            ex_.ghost['__call_hooks__'] = hooks
            ex_.ghost['__dict_update_opaque__'] = lambda I, ref, src: (ex_.ghost['calls'].append(('dict.update', ref, src)), NONE)[1]
            ex_.ghost['__isdict_pred__'] = z3.Function('is_dict', Val, smt.Bool)
            ex_.ghost['__typeof__'] = lambda ex2, v: VExcClass('TypeError')      # only its __name__ is used, in an error message
            return free

        def setup(ex_, env):
            env.update(ex_.ghost['__penv__'])
            env['obj'] = env['ret']
            if dict_state:
                St = ex_.alloc(HSymDict(ex_.fresh('St_dom', z3.ArraySort(Val, smt.Bool)), ex_.fresh('St_map', z3.ArraySort(Val, Val))))
                env['state'] = St
            else:
                s = ex_.interp.sym('state')
                ex_.assume(z3.Not(ex_.ghost['__isdict_pred__'](s.t)))
                ex_.assume(s.t != Val.v_none)
                env['state'] = s
            env['k0'] = VSym(ex_.fresh('k0', Val))

        def passed_on(c):
            ex_ = c.ex
            calls = ex_.ghost['calls']
            if not has_ss and dict_state and len(calls) == 0 and ex_.ghost['child_restored_calls'] == 1:
                # nothing to put into __dict__: legitimate exactly for an empty patched state (as in pickle's own load_build)
                St0 = ex_.old['heap'][c.env['state'].addr]
                return z3.And(St0.dom == z3.EmptySet(Val), ex_.heap[c.env['D'].addr].dom == z3.EmptySet(Val))
            if len(calls) != 1 or ex_.ghost['child_restored_calls'] != 1 or ex_.ghost.get('restored_after') != 1:
                return z3.BoolVal(False)
            kind, target, arg = calls[0]
            if not (isinstance(target, VRef) and target.addr == c.env['obj'].addr):
                return z3.BoolVal(False)
            D = ex_.heap[c.env['D'].addr]
            k0 = c.env['k0'].t
            if dict_state:
                St0 = ex_.old['heap'][c.env['state'].addr]
                St1 = ex_.heap[c.env['state'].addr]
                if not isinstance(arg, VRef) or arg.addr == c.env['state'].addr or not isinstance(ex_.heap[arg.addr], HSymDict):
                    return z3.BoolVal(False)
                P = ex_.heap[arg.addr]
                merged = z3.And(z3.Select(P.dom, k0) == z3.Or(z3.Select(St0.dom, k0), z3.Select(D.dom, k0)),
                                z3.Implies(z3.Select(D.dom, k0), z3.Select(P.map, k0) == z3.Select(D.map, k0)),
                                z3.Implies(z3.And(z3.Not(z3.Select(D.dom, k0)), z3.Select(St0.dom, k0)), z3.Select(P.map, k0) == z3.Select(St0.map, k0)))
                untouched = z3.And(St1.dom == St0.dom, St1.map == St0.map)
                return z3.And(merged, untouched)
            return lower(arg, ex_) == lower(c.env['state'], ex_)
        passed_on.__doc__ = ('the state is passed on exactly once (to the class\'s own __setstate__, or to the instance __dict__ when it defines none), then child_restored runs once; '
                             + ('for the arbitrary key k0 the passed state has patches[k0] if patched, else state[k0]; the original state object is not modified'
                                if dict_state else 'a non-dict state is passed on unchanged'))

        def wrapper_gone(c):
            ex_ = c.ex
            return z3.BoolVal('__setstate__' not in ex_.heap[c.env['obj'].addr].attrs)
        wrapper_gone.__doc__ = 'the one-shot wrapper has removed itself from the instance'

        def nondict_patched(c):
            ex_ = c.ex
            D = ex_.heap[c.env['D'].addr]
            return D.dom != z3.EmptySet(Val)
        nondict_patched.__doc__ = 'TypeError exactly when a non-dict state meets non-empty patches'
        tag = ('with' if has_ss else 'without') + ('-dict' if dict_state else '-nondict')
        return (Contract(PSS, lid=f'L4-{tag}', name=f'{prop}.L4-{tag} the one-shot __setstate__ wrapper (class {"with" if has_ss else "without"} __setstate__, {"dict" if dict_state else "non-dict"} state) merges exactly the current patches and restores the object the standard way',
                         closure_env=cenv, self_class=RS, params={'obj': ('const', None), 'state': ('const', None)}, setup=setup,
                         ensures=[passed_on, wrapper_gone], raises={} if dict_state else {'TypeError': nondict_patched}, raises_only=[] if dict_state else ['TypeError'],
                         options={'assert_mode': 'oblige'}), None)
    for kc in (WITH_SETSTATE, NO_SETSTATE):
        for ds in (True, False):
            if kc == NO_SETSTATE and not ds:
                continue            # standard pickle cannot restore a non-dict state into a class without __setstate__ either
            out.append(mk_patched(kc, ds))

    # ---- recreate_obj_and_patch_setstate
    def mk_recreate(kind_cls):
        has_ss = kind_cls == WITH_SETSTATE

        def setup(ex_, env):
            local_state(ex_, env)
            fresh = ex_.alloc(HObj(repo.cls(kind_cls), {}))
            env['fresh'] = fresh
            env['newobj'] = ex_.interp.sym('newobj')
            env['newargs'] = VTuple([ex_.interp.sym('cls_arg')])
            env['children_names'] = ex_.alloc(HSymList(ex_.fresh('children_names', SeqVal)))
            ex_.ghost['made'] = 0
            ex_.ghost['bp'] = []

            def opaque(ex2, f, a, k, node):
                if f is env['newobj']:
                    ex2.ghost['made'] += 1
                    return fresh
                raise Undecided(f'opaque call of {f!r}')
            ex_.ghost['__opaque_call__'] = opaque
            ex_.ghost['__call_hooks__'] = {RS + '.break_patches': lambda I, fi, a, k, n, s: (ex_.ghost['bp'].append(a[-1]), NONE)[1]}

        def wrapped(c):
            ex_ = c.ex
            r = c.env['result']
            if not (isinstance(r, VRef) and r.addr == c.env['fresh'].addr) or ex_.ghost['made'] != 1:
                return z3.BoolVal(False)
            w = ex_.heap[r.addr].attrs.get('__setstate__')
            ok = isinstance(w, VBound) and isinstance(w.func, VFunc) and w.func.fi.qualname == PSS and isinstance(w.self_v, VRef) and w.self_v.addr == r.addr
            bp = ex_.ghost['bp']
            ok = ok and len(bp) == 1 and bp[0] is c.env['children_names']
            return z3.BoolVal(bool(ok))
        wrapped.__doc__ = ('the object is created once by the standard constructor call, gets the one-shot wrapper as its instance __setstate__ (bound to itself), '
                           'and break_patches is called once with exactly the child names recorded at dump time')
        tag = 'with' if has_ss else 'without'
        return (Contract(REC, lid=f'L4r-{tag}', name=f'{prop}.L4r-{tag} recreate_obj_and_patch_setstate (class {tag} __setstate__): creates the object, installs the wrapper, pushes the child frames',
                         params={'newobj': ('const', None), 'newargs': ('const', None), 'children_names': ('const', None)}, self_class=RS, setup=setup,
                         ensures=[wrapped], raises={}, raises_only=[]), None)
    out.append(mk_recreate(WITH_SETSTATE))
    out.append(mk_recreate(NO_SETSTATE))
    return out


# ------------------------------------------------------------------------------------------------ dump side
def reduce_lemma(ex, prop, delivery):
    repo = ex.repo
    type_of = z3.Function('type_of', Val, Val)
    inherits_marker = z3.Function('inherits_marker_class', Val, smt.Bool)      # real (nominal) inheritance from SupportRemoteGetState
    from pyvc.interp_data import cnt_f

    def optin_obj(v):
        return optin(type_of(v))

    def setup(ex_, env):
        I = ex_.interp
        remote = I.sym('remote', 'bool')
        env['self'] = ex_.alloc(HObj(repo.cls(RP), {'_remote': remote}))
        env['remote'] = remote
        obj = ex_.alloc(HObj(repo.cls(WITH_SETSTATE), {}))
        env['obj'] = obj
        St = ex_.alloc(HSymDict(ex_.fresh('St_dom', z3.ArraySort(Val, smt.Bool)), ex_.fresh('St_map', z3.ArraySort(Val, Val))))
        env['St'] = St
        k0 = ex_.fresh('k0', Val)
        env['k0'] = VSym(k0)
        ex_.ghost['cnt_track'] = [k0]
        ex_.ghost['gs_calls'] = []
        gs, _ = repo.lookup_method(repo.cls(WITH_SETSTATE), '__getstate__')

        def getstate(I2, fi, a, k, n, s):
            ex_.ghost['gs_calls'].append(k.get('remote', a[1] if len(a) > 1 else None))
            return St
        ex_.ghost['__call_hooks__'] = {gs.qualname: getstate}
        ex_.ghost['__typeof__'] = lambda ex2, v: VSym(type_of(lower(v, ex2))) if not (isinstance(v, VRef) and isinstance(ex2.heap[v.addr], HObj)) else VClass(ex2.heap[v.addr].cls)

        def issub(ex2, cl, t):
            if isinstance(t, VClass) and t.ci.qualname == SRGS and isinstance(cl, VSym):
                return VBool(optin(cl.t))
            raise Undecided(f'issubclass({cl!r}, {t!r})')
        ex_.ghost['__issubclass__'] = issub

        def isinst(ex2, v, ci):
            # isinstance(x, SupportRemoteGetState) is NOT the opt-in test: the metaclass overrides __subclasscheck__ only, and type.__instancecheck__ looks at
            # real inheritance without consulting it.  So it is a different predicate (read from the metaclass's body each run).
            if ci.qualname == SRGS:
                from .C13 import META
                if '__instancecheck__' in ex2.repo.cls(META).methods:
                    raise Undecided('the metaclass of SupportRemoteGetState defines __instancecheck__: isinstance() against the marker class is not modelled')
                return inherits_marker(type_of(v.t))
            raise Undecided(f'isinstance(symbolic, {ci.name})')
        ex_.ghost['__sym_isinstance__'] = isinst

        def ordered(ex2, a, k):
            src = a[0]
            return ex2.alloc(ex2.heap[src.addr].clone())
        ex_.ext_models['collections.OrderedDict'] = ordered
        ex_.ghost['__local_kinds__'] = {(RP + '.remote_reduce', 'children_names'): 'symlist'}
        ex_.ghost['assert_assume'] = ["'__reduce_ex__'", "'__reduce__'"]
        ex_.ghost['__specenv__'] = env
        ex_.assume(z3.ForAll([z3.Const('vv', Val)], z3.Implies(optin_obj(z3.Const('vv', Val)), contains_optin(z3.Const('vv', Val)))))

    def names_of(c):
        ex_ = c.ex
        r = c.env['result']
        if not isinstance(r, VTuple) or len(r.items) != 5:
            return None
        na = r.items[1]
        if not isinstance(na, VTuple) or len(na.items) != 3 or not isinstance(na.items[2], VRef):
            return None
        return ex_.heap[na.items[2].addr].seq

    def shape(c):
        ex_ = c.ex
        r = c.env['result']
        if names_of(c) is None:
            return z3.BoolVal(False)
        f = r.items[0]
        ok = isinstance(f, VFunc) and f.fi.qualname == REC
        gs = ex_.ghost['gs_calls']
        ok = ok and len(gs) == 1 and gs[0] is c.env['remote']
        st = r.items[2]
        ok = ok and isinstance(st, VRef) and isinstance(ex_.heap[st.addr], HSymDict)
        if not ok:
            return z3.BoolVal(False)
        S0, S1 = ex_.heap[c.env['St'].addr], ex_.heap[st.addr]
        return z3.And(S1.dom == S0.dom, S1.map == S0.map)
    shape.__doc__ = ('__getstate__ is called exactly once, with remote == the pickler\'s flag; the reduce value is (recreate_obj_and_patch_setstate, '
                     '(standard constructor, its arguments, child names), a copy of the state with the same items, None, None)')

    def named_exactly(c):
        ex_ = c.ex
        names = names_of(c)
        if names is None:
            return z3.BoolVal(False)
        S0 = ex_.heap[c.env['St'].addr]
        k0 = c.env['k0'].t
        return cnt_f(k0, names) == z3.If(z3.And(z3.Select(S0.dom, k0), optin_obj(z3.Select(S0.map, k0))), 1, 0)
    named_exactly.__doc__ = 'the arbitrary key k0 is recorded as a child name exactly once if state[k0] is an opt-in object, and not at all otherwise'

    def every_descendant_framed(c):
        ex_ = c.ex
        names = names_of(c)
        if names is None:
            return z3.BoolVal(False)
        S0 = ex_.heap[c.env['St'].addr]
        k0 = c.env['k0'].t
        return z3.Implies(z3.And(z3.Select(S0.dom, k0), contains_optin(z3.Select(S0.map, k0))), cnt_f(k0, names) >= 1)
    every_descendant_framed.__doc__ = ('delivery: every entry of the state that holds an opt-in object (directly, or inside a list / dict / plain object) is recorded, so that '
                                       'each opt-in object restored before this object\'s own __setstate__ finds a frame of its own and not its ancestor\'s')

    def visited_counted(c):
        ex_ = c.ex
        S0 = ex_.heap[c.env['St'].addr]
        k0 = c.env['k0'].t
        names = ex_.heap[c.env['children_names'].addr].seq
        vis = c.env['__visited__'].t
        return cnt_f(k0, names) == z3.If(z3.And(z3.Select(vis, k0), optin_obj(z3.Select(S0.map, k0))), 1, 0)
    visited_counted.__doc__ = 'k0 is recorded once iff it was visited and its value is an opt-in object'
    ens = [shape, named_exactly] + ([every_descendant_framed] if delivery else [])
    return (Contract(RP + '.remote_reduce', lid='L5', name=f'{prop}.L5 remote_reduce: __getstate__(remote=flag) once; the reduce value names exactly the opt-in entries of the state',
                     params={'self': ('const', None), 'obj': ('const', None)}, self_class=RP, setup=setup, ensures=ens, raises={}, raises_only=[],
                     loops={0: Loop(invariant=[visited_counted], modifies=['children_names'], locals={'value': 'any', 'key': 'any'})}), None)
