"""C01 - a dead worker always has one definite, consistent and stable outcome.

L1  decode: result / error / has_error against every value of _get_result() (None, (True, v), (False, x)); no accessor raises.
L2  definite after death, per kind, for ALL channel contents the channel invariants allow and every way the child may have ended:
    process: ProcessWorker._get_result on a dead child whose pipe holds any sequence of final messages, possibly ending in a message
             that cannot be received (truncated by a kill mid-send: OSError; payload that cannot be rebuilt on this side: any exception)
    remote:  RemoteWorker._fetch_results for every behaviour of the data socket (result + state, result then connection lost,
             connection lost, unreceivable result) and RemoteWorker._run_backend always sending a pair, never None
    thread:  ThreadWorker._run records a pair on every exit (shared with C03.L2t, landing points included)
L4  stable: a second call of an accessor returns the same value and does not raise (the first call's post-state satisfies the
    precondition "result cached" under which _get_result returns the cached value unchanged).
"""
import z3

from pyvc import smt
from pyvc.smt import Val, ValList, SeqVal
from pyvc.values import *  # noqa
from pyvc.contracts import Contract, Loop
from . import common, workers, childrun, C16 as _c16
from .workers import PW, TW, RW, W

ID = 'C01'
MIN_OBLIGATIONS = 60
TRUSTED = [common.TEXT['chan'], common.TEXT['msgsock'], workers.proc_class().text,
           'T3 Connection.recv() raises OSError on a message cut short by the writer\'s death and may raise any exception while rebuilding the payload; in both cases the message is consumed / the stream is at EOF afterwards']
ASSUMPTIONS = [
    'persistent kinds: the forwarding loop PersistentRemoteWorker._fetch_results and the end-marker discipline are in the C06 cone',
    'kill at an arbitrary instant is covered through the channel invariant (whatever was completely written is a correct prefix; at most one truncated message follows), not by enumerating kill points of the child',
    'that a class "cannot be rebuilt on the parent side" is a fact about pickle and the import system; it enters as the possibility that recv/recv_msg raises an arbitrary exception',
]
MUTANTS = [
    ('pyworkers/worker.py', "        graceful, result = r\n        if not graceful:\n            return None\n        return result", "        graceful, result = r\n        return result", 'result returns the exception of a failed worker'),
    ('pyworkers/worker.py', "        graceful, _ = r\n        return not graceful", "        graceful, _ = r\n        return graceful", 'has_error inverted'),
    ('pyworkers/process.py', "            if self._result is None:\n                self._result = (False, None)\n", "", 'no fallback outcome for a child that died without reporting'),
    ('pyworkers/remote.py', "            self._result = (False, None)\n            logger.debug('Connection to the child has been closed before receiving the result')", "            logger.debug('Connection to the child has been closed before receiving the result')", 'remote: lost connection leaves no outcome'),
]


def pair_or_none(t):
    lst = Val.vitems(t)
    pair = z3.And(Val.is_v_tup(t), ValList.is_vl_cons(lst), Val.is_v_bool(ValList.vl_hd(lst)), ValList.is_vl_cons(ValList.vl_tl(lst)),
                  ValList.is_vl_nil(ValList.vl_tl(ValList.vl_tl(lst))))
    return pair


def decode_lemmas(ex, prop='C01'):
    lemmas = []
    def decode_setup(ex_, env):
        self_v = ex_.alloc(HObj(ex_.repo.cls(TW), {}))
        r = ex_.fresh('r', Val)
        ex_.assume(z3.Or(r == Val.v_none, pair_or_none(r)))
        ex_.heap[self_v.addr].attrs['_result'] = VSym(r)
        env['self'] = self_v
        env['r'] = VSym(r)

    def decode_spec(which):
        def f(c):
            ex_ = c.ex
            r = c.env['r'].t
            res = lower(c.env['result'], ex_)
            flag = Val.vb(ValList.vl_hd(Val.vitems(r)))
            x = ValList.vl_hd(ValList.vl_tl(Val.vitems(r)))
            if which == 'result':
                want = z3.If(r == Val.v_none, Val.v_none, z3.If(flag, x, Val.v_none))
            elif which == 'error':
                want = z3.If(r == Val.v_none, Val.v_none, z3.If(flag, Val.v_none, x))
            else:
                want = z3.If(r == Val.v_none, Val.v_none, Val.v_bool(z3.Not(flag)))
            return res == want
        f.__doc__ = {'result': 'result == (v if _get_result() == (True, v) else None)',
                     'error': 'error == (x if _get_result() == (False, x) else None)',
                     'has_error': 'has_error == (None if _get_result() is None else not flag)'}[which]
        return f
    for which in ('result', 'error', 'has_error'):
        lemmas.append((Contract(W + '.' + which, lid=f'L1-{which}', name=f'{prop}.L1 {which} decodes the outcome pair; never raises',
                                params={'self': ('const', None)}, self_class=TW, setup=decode_setup,
                                ensures=[decode_spec(which)], raises={}, raises_only=[], modifies=[]), None))

    return lemmas


def build(ex):
    workers.install(ex)
    lemmas = []

    lemmas += decode_lemmas(ex)

    # ---------------------------------------------------------------- L2 process: _get_result on a dead child, any pipe content
    def dead_any(ex_, env):
        self_v = workers.process_parent(ex_, env)
        a = ex_.heap[self_v.addr].attrs
        a['_dead'] = VBool(True)
        a['_result'] = NONE
        cp = env['comms_parent']
        ac = ex_.abs_classes['Conn']
        inq = ac.get(ex_, cp, 'inq')
        ipos0 = ex_.fresh('ipos0', smt.Int)
        ac.set(ex_, cp, 'ipos', ipos0)
        ac.set(ex_, cp, 'peer_closed', z3.BoolVal(True))
        ex_.abs_classes['Proc'].set(ex_, env['child'], 'alive', z3.BoolVal(False))
        ex_.assume(z3.And(ipos0 >= 0, ipos0 <= z3.Length(inq)))
        env['ipos0'] = VInt(ipos0)
        env['inq'] = VSeq(inq)

    def definite(c):
        ex_ = c.ex
        r = lower(c.env['result'], ex_)
        h = ex_.heap[c.env['self'].addr].attrs
        return z3.And(pair_or_none(r), r != Val.v_none, lower(h['_result'], ex_) == r)
    definite.__doc__ = 'the outcome of a dead process worker is a pair (flag, value) - never None - and it is cached'

    drain = Loop(
        invariant=['comms_parent.ipos >= ipos0 and comms_parent.ipos <= len(inq)',
                   'is_none(self._result) or is_final(val(self._result))',
                   'self._dead'],
        variant='len(inq) - comms_parent.ipos',
        modifies=[('self._result', 'any'), 'abs:Conn.ipos'])
    ex.spec_functions['is_final'] = lambda se, x: VBool(workers.final_msg_inv(ex, x.t, None))
    opts = {'chan_elem_inv': {'comms.parent': workers.final_msg_inv}, 'recv_closed_check': False,
            'recv_raises': {'comms.parent': ['OSError', 'AnyException']}}
    lemmas.append((Contract(
        PW + '._get_result', lid='L2p', name='C01.L2p ProcessWorker._get_result on a dead child: a definite pair for every pipe content, even if a message cannot be received; never raises',
        params={'self': ('const', None)}, self_class=PW, setup=dead_any,
        ensures=[definite], raises={}, raises_only=[], loops={0: drain}, options=opts), None))

    # L4 stable (process): once cached, nothing changes and nothing is read
    def cached_setup(ex_, env):
        dead_any(ex_, env)
        a = ex_.heap[env['self'].addr].attrs
        r = ex_.fresh('cached', Val)
        ex_.assume(z3.And(pair_or_none(r)))
        a['_result'] = VSym(r)
    lemmas.append((Contract(
        PW + '._get_result', lid='L4p', name='C01.L4p ProcessWorker._get_result is stable: a cached outcome is returned unchanged, nothing is read, nothing raises',
        params={'self': ('const', None)}, self_class=PW, setup=cached_setup,
        ensures=['val(result) == val(old(self._result))', 'self._result == old(self._result)', 'self._user_state == old(self._user_state)',
                 'comms_parent.ipos == ipos0'],
        raises={}, raises_only=[], loops={0: drain}, options=opts), None))

    # ---------------------------------------------------------------- L2 remote: the front-end's fetch
    def fe_setup(ex_, env):
        I = ex_.interp
        sock = common.new_chan(ex_, 'Conn', 'data')
        attrs = {'_socket': sock, '_result': NONE, '_user_state': I.sym('state0')}
        env['self'] = ex_.alloc(HObj(ex_.repo.cls(RW), attrs))
        env['sock'] = sock

    def fetched(c):
        ex_ = c.ex
        h = ex_.heap[c.env['self'].addr].attrs
        r = lower(h['_result'], ex_)
        return z3.And(r != Val.v_none, pair_or_none(r))
    fetched.__doc__ = 'when the front-end thread leaves _fetch_results (normally or not) _result is a pair (flag, value), never None'

    def backend_msg(ex_, x, ipos):
        # channel invariant B.3: the backend's first message on the data socket is the result pair (proved for the writer in L2rb)
        return z3.Implies(ipos == 0, pair_or_none(x))
    lemmas.append((Contract(
        RW + '._fetch_results', lid='L2rf', name='C01.L2rf RemoteWorker._fetch_results leaves a definite pair on every exit (result, lost connection at any message, unreceivable result)',
        params={'self': ('const', None)}, self_class=RW, setup=fe_setup,
        all_exits=[fetched], raises={'ConnectionClosedError': None, 'AnyException': None}, raises_only=['ConnectionClosedError', 'AnyException'],
        options={'__call_hooks__': dict(common.MSG_HOOKS), 'recv_closed_check': False, 'chan_elem_inv': {'data': backend_msg},
                 'recv_raises': {'data': ['AnyException']}}), None))

    lemmas.append((childrun.backend_run_contract(ex, 'L2rb', 'C01'), None))

    # ---------------------------------------------------------------- L2 thread (shared with C03)
    lemmas.append((childrun.thread_run_injected(ex, 'L2t', 'C01'), None))
    lemmas += history_lemmas(ex)
    return lemmas


def history_lemmas(ex):
    """L2w: the outcome survives a HISTORY of parent-side calls - ProcessWorker.wait() may be called any number of times while the child is exiting; a final
    message it has already received must not be forgotten by a later call (contract of the C04 cone on the real wait(), restricted to that clause)"""
    from . import C04
    out = []
    saved = dict(ex.call_hooks)
    for con, v in C04.build(ex):
        if con.lid == 'Lw-process':
            con.lid = 'L2w'
            con.name = 'C01.L2w ProcessWorker.wait never forgets a final message an earlier wait() has already received'
            con.ensures = [e for e in con.ensures if getattr(e, '__name__', '') == 'early_kept']
            out.append((con, v))
    ex.call_hooks.clear()
    ex.call_hooks.update(saved)
    return out


def replay(ob, repo):
    from pyvc.native import run_script
    if 'L2t' in ob['lemma']:
        from . import C03
        return C03.replay(ob, repo)
    r = run_script('c01_native.py', {'lemma': ob['lemma']}, repo, timeout=150)
    return bool(r.get('violates')), r


def replay_file(path, repo):
    import json
    from pyvc.native import run_script
    r = run_script('c01_native.py', {}, repo, timeout=150)
    print(json.dumps(r, indent=1, default=str))
    if r.get('violates'):
        print(f'VIOLATION property=C01 replay={path}')
        return 1
    return 0
