"""C18 - remote contexts are unique per id, supply their workers' work, and clean up.

Server side: the context table transitions and the no-crash clause are step obligations of RemoteServer.run's accept loop
(shared cone, props/C11.py).  Client side: RemoteContext.__init__ / _try_del against the reply protocol."""
import z3

from pyvc import smt
from pyvc.smt import Val, ValList, SeqVal
from pyvc.values import *  # noqa
from pyvc.contracts import Contract, Loop
from . import common, server, C11 as _c11

ID = 'C18'
MIN_OBLIGATIONS = 30
RC = 'pyworkers.remote_context.RemoteContext'
TRUSTED = _c11.TRUSTED
ASSUMPTIONS = _c11.ASSUMPTIONS + [
    'L3 (a worker created with a context id runs the context\'s target with its defaults) rests on C15.L1 for the root object (patches _target/_args/_kwargs reach the unpickled RemoteWorker); the hand-over of the client socket to the context helper is the obligation "ctx.call(cli)" of the accept loop; the helper process itself (RemoteContextWorker.do_work / _create_worker) is not under contract in this round',
    'L4 (helper exit terminates its children) is not decided in this round',
]
MUTANTS = _c11.MUTANTS + [
    ('pyworkers/remote_context.py', "            if not result:\n                raise ValueError(", "            if result is None:\n                raise ValueError(", 'client accepts a False reply to a create request'),
    ('pyworkers/remote_context.py', "            self._alive = not result\n", "            self._alive = False\n", 'client forgets a context the server could not delete'),
]


def build(ex):
    lemmas = _c11.build(ex)
    repo = ex.repo

    def sock_factory(ex_, a, k):
        n = ex_.fresh_ctr.get('#csock', 0)
        ex_.fresh_ctr['#csock'] = n + 1
        c = common.new_chan(ex_, 'Conn', f'csock#{n}')
        ex_.ghost['client_sock'] = c
        return c
    ex.ext_models['socket.socket'] = sock_factory
    ex.abs_classes['Conn'].methods['connect'] = lambda ex_, a, k: NONE
    ex.call_hooks['pyworkers.remote.sanitize_target_host'] = lambda I, fi, a, k, n, s: VSym(I.ex.fresh('target_host', Val))
    ex.call_hooks['pyworkers.remote.set_keepalive'] = lambda I, fi, a, k, n, s: NONE

    def reply_of(c):
        ex_ = c.ex
        s = ex_.ghost.get('client_sock')
        inq = server.F(ex_, 'Conn', s, 'inq')
        return inq[0]

    def setup_init(ex_, env):
        env['self'] = ex_.alloc(HObj(repo.cls(RC), {}))
        for p in ('ctx_id', 'host', 'target', 'args', 'kwargs', 'extra_state'):
            env[p] = ex_.interp.sym(p)

    def alive_iff_accepted(c):
        ex_ = c.ex
        a = ex_.heap[c.env['self'].addr].attrs
        return z3.And(smt.truthy_term(reply_of(c)), a['_alive'].e)
    alive_iff_accepted.__doc__ = 'the constructor returns only if the server replied truthy; then the context is marked alive'

    def sent_request(c):
        ex_ = c.ex
        s = ex_.ghost.get('client_sock')
        out = server.F(ex_, 'Conn', s, 'out')
        hdr = Val.v_tup(smt.mk_list([lower(c.env['ctx_id'], ex_), Val.v_bool(z3.BoolVal(False))]))
        return z3.And(z3.Length(out) == 2, out[0] == hdr, out[1] == lower(c.env['self'], ex_), z3.Not(server.F(ex_, 'Conn', s, 'open')))
    sent_request.__doc__ = 'exactly the header (ctx_id, False) and the context object were sent, and the socket is closed afterwards'

    def rejected(c):
        ex_ = c.ex
        a = ex_.heap[c.env['self'].addr].attrs
        s = ex_.ghost.get('client_sock')
        return z3.And(z3.Not(smt.truthy_term(reply_of(c))), z3.Not(a['_alive'].e), z3.Not(server.F(ex_, 'Conn', s, 'open')))
    rejected.__doc__ = 'ValueError exactly when the reply is falsy; the context stays not-alive; the socket is closed'

    opts = {'__call_hooks__': dict(common.MSG_HOOKS), 'recv_closed_check': False}
    L2a = Contract(
        RC + '.__init__', lid='L2a', name='C18.L2a RemoteContext(ctx_id): sends the create request; returns iff the server accepted, raises ValueError iff it refused',
        params={p: ('const', None) for p in ('self', 'ctx_id', 'host', 'target', 'args', 'kwargs', 'extra_state')},
        self_class=RC, setup=setup_init,
        ensures=[alive_iff_accepted, sent_request],
        raises={'ValueError': rejected, 'ConnectionClosedError': None},
        raises_only=['ValueError', 'ConnectionClosedError'], options=opts)

    def setup_del(ex_, env):
        I = ex_.interp
        env['self'] = ex_.alloc(HObj(repo.cls(RC), {'_alive': I.sym('alive0', 'bool'), '_id': I.sym('ctx_id'),
                                                     '_target_host': I.sym('target_host'), '_remote': VBool(False)}))

    def del_result(c):
        ex_ = c.ex
        a = ex_.heap[c.env['self'].addr].attrs
        a0 = ex_.old['heap'][c.env['self'].addr].attrs
        s = ex_.ghost.get('client_sock')
        res = c.env['result'].e
        if s is None:
            return z3.And(z3.Not(a0['_alive'].e), res, z3.Not(a['_alive'].e))
        rep = smt.truthy_term(server.F(ex_, 'Conn', s, 'inq')[0])
        return z3.And(a0['_alive'].e, a['_alive'].e == z3.Not(rep), res == rep)
    del_result.__doc__ = 'already deleted: True without contacting the server; otherwise _alive == not reply and the return value == reply'
    L2b = Contract(
        RC + '._try_del', lid='L2b', name='C18.L2b RemoteContext._try_del: the context stays alive exactly when the server reports failure',
        params={'self': ('const', None)}, self_class=RC, setup=setup_del, returns='bool',
        ensures=[del_result], raises={'ConnectionClosedError': None}, raises_only=['ConnectionClosedError'], options=opts)
    return lemmas + [(L2a, None), (L2b, None)]


replay = _c11.replay
replay_file = _c11.replay_file
