"""C18 - remote contexts are unique per id, supply their workers' work, and clean up.

Server side: the context table transitions and the no-crash clause are step obligations of RemoteServer.run's accept loop
(shared cone, props/C11.py).  Client side: RemoteContext.__init__ / _try_del against the reply protocol."""
import z3

from pyvc import smt
from pyvc.smt import Val, ValList, SeqVal
from pyvc.values import *  # noqa
from pyvc.contracts import Contract, Loop
from . import common, server, C11 as _c11

ID = 'C18'
MIN_OBLIGATIONS = 30
RC = 'pyworkers.remote_context.RemoteContext'
TRUSTED = _c11.TRUSTED
ASSUMPTIONS = _c11.ASSUMPTIONS + [
    'L3 (a worker created with a context id runs the context\'s target with its defaults) rests on C15.L1 for the root object (patches _target/_args/_kwargs reach the unpickled RemoteWorker); the hand-over of the client socket to the context helper is the obligation "ctx.call(cli)" of the accept loop; the helper itself is under contract (L3, L4, L4b)',
    'L4: "terminated" means terminate(timeout=1, force=True) was invoked on the worker object the helper holds; that this leaves the backend process dead is C04 (server side) on top of T4',
]
MUTANTS = [m for m in _c11.MUTANTS if m[0].endswith('remote_server.py')] + [       # the accept loop's mutants; C11.L2 / L4 (remote.py) belong to C11 only
    ('pyworkers/remote_context.py', "            if not result:\n                raise ValueError(", "            if result is None:\n                raise ValueError(", 'client accepts a False reply to a create request'),
    ('pyworkers/remote_context.py', "            self._alive = not result\n", "            self._alive = False\n", 'client forgets a context the server could not delete'),
    ('pyworkers/remote_context.py', "                '_target': self._target,\n", "", 'a worker sent to a context keeps its own target'),
    ('pyworkers/remote_context.py', "        try:\n            ret = super().do_work()\n        finally:\n            self._target(None, _clean=True)", "        ret = super().do_work()\n        self._target(None, _clean=True)", 'clean-up skipped when serving ends by an exception'),
    ('pyworkers/remote_context.py', "                except:\n                    logger.exception('Exception occurred while killing a remote child:')", "                except OSError:\n                    logger.exception('Exception occurred while killing a remote child:')", 'one failing terminate stops the clean-up of the remaining workers'),
]


def build(ex):
    from . import server as _server
    _server.install(ex)
    lemmas = [(_c11.build_run_contract(ex, ex.prop), None)]       # the accept loop; C11.L2 (control-channel wait) belongs to C11 only
    repo = ex.repo

    def sock_factory(ex_, a, k):
        n = ex_.fresh_ctr.get('#csock', 0)
        ex_.fresh_ctr['#csock'] = n + 1
        c = common.new_chan(ex_, 'Conn', f'csock#{n}')
        ex_.ghost['client_sock'] = c
        return c
    ex.ext_models['socket.socket'] = sock_factory
    ex.abs_classes['Conn'].methods['connect'] = lambda ex_, a, k: NONE
    ex.call_hooks['pyworkers.remote.sanitize_target_host'] = lambda I, fi, a, k, n, s: VSym(I.ex.fresh('target_host', Val))
    ex.call_hooks['pyworkers.remote.set_keepalive'] = lambda I, fi, a, k, n, s: NONE

    def reply_of(c):
        ex_ = c.ex
        s = ex_.ghost.get('client_sock')
        inq = server.F(ex_, 'Conn', s, 'inq')
        return inq[0]

    def setup_init(ex_, env):
        env['self'] = ex_.alloc(HObj(repo.cls(RC), {}))
        for p in ('ctx_id', 'host', 'target', 'args', 'kwargs', 'extra_state'):
            env[p] = ex_.interp.sym(p)

    def alive_iff_accepted(c):
        ex_ = c.ex
        a = ex_.heap[c.env['self'].addr].attrs
        return z3.And(smt.truthy_term(reply_of(c)), a['_alive'].e)
    alive_iff_accepted.__doc__ = 'the constructor returns only if the server replied truthy; then the context is marked alive'

    def sent_request(c):
        ex_ = c.ex
        s = ex_.ghost.get('client_sock')
        out = server.F(ex_, 'Conn', s, 'out')
        hdr = Val.v_tup(smt.mk_list([lower(c.env['ctx_id'], ex_), Val.v_bool(z3.BoolVal(False))]))
        return z3.And(z3.Length(out) == 2, out[0] == hdr, out[1] == lower(c.env['self'], ex_), z3.Not(server.F(ex_, 'Conn', s, 'open')))
    sent_request.__doc__ = 'exactly the header (ctx_id, False) and the context object were sent, and the socket is closed afterwards'

    def rejected(c):
        ex_ = c.ex
        a = ex_.heap[c.env['self'].addr].attrs
        s = ex_.ghost.get('client_sock')
        return z3.And(z3.Not(smt.truthy_term(reply_of(c))), z3.Not(a['_alive'].e), z3.Not(server.F(ex_, 'Conn', s, 'open')))
    rejected.__doc__ = 'ValueError exactly when the reply is falsy; the context stays not-alive; the socket is closed'

    opts = {'__call_hooks__': dict(common.MSG_HOOKS), 'recv_closed_check': False}
    L2a = Contract(
        RC + '.__init__', lid='L2a', name='C18.L2a RemoteContext(ctx_id): sends the create request; returns iff the server accepted, raises ValueError iff it refused',
        params={p: ('const', None) for p in ('self', 'ctx_id', 'host', 'target', 'args', 'kwargs', 'extra_state')},
        self_class=RC, setup=setup_init,
        ensures=[alive_iff_accepted, sent_request],
        raises={'ValueError': rejected, 'ConnectionClosedError': None},
        raises_only=['ValueError', 'ConnectionClosedError'], options=opts)

    def setup_del(ex_, env):
        I = ex_.interp
        env['self'] = ex_.alloc(HObj(repo.cls(RC), {'_alive': I.sym('alive0', 'bool'), '_id': I.sym('ctx_id'),
                                                     '_target_host': I.sym('target_host'), '_remote': VBool(False)}))

    def del_result(c):
        ex_ = c.ex
        a = ex_.heap[c.env['self'].addr].attrs
        a0 = ex_.old['heap'][c.env['self'].addr].attrs
        s = ex_.ghost.get('client_sock')
        res = c.env['result'].e
        if s is None:
            return z3.And(z3.Not(a0['_alive'].e), res, z3.Not(a['_alive'].e))
        rep = smt.truthy_term(server.F(ex_, 'Conn', s, 'inq')[0])
        return z3.And(a0['_alive'].e, a['_alive'].e == z3.Not(rep), res == rep)
    del_result.__doc__ = 'already deleted: True without contacting the server; otherwise _alive == not reply and the return value == reply'
    L2b = Contract(
        RC + '._try_del', lid='L2b', name='C18.L2b RemoteContext._try_del: the context stays alive exactly when the server reports failure',
        params={'self': ('const', None)}, self_class=RC, setup=setup_del, returns='bool',
        ensures=[del_result], raises={'ConnectionClosedError': None}, raises_only=['ConnectionClosedError'], options=opts)
    # ------------------------------------------------------------------ L3 / L4 the helper process of a context
    from pyvc.contracts import AbsClass

    def child_class():
        def terminate(ex_, a, k):
            ac = ex_.abs_classes['CtxChild']
            ac.set(ex_, a[0], 'terminated', z3.BoolVal(True))
            if ex_.choose(2, 'child.terminate:outcome') == 1:
                ex_.note('child.terminate raises')
                raise common.PyRaise(VExc('AnyException', []))
            return VBool(ex_.fresh('term_ret', smt.Bool))

        def is_alive(ex_, a, k):
            return VBool(ex_.fresh('child_alive', smt.Bool))
        return AbsClass('CtxChild', fields={'terminated': smt.Bool}, methods={'terminate': terminate, 'is_alive': is_alive},
                        attrs={'pid': lambda I, o: VSym(I.ex.fresh('child_pid', Val))}, text='a worker received by the context helper (seen through terminate/is_alive/pid)')
    ex.abs_classes['CtxChild'] = child_class()

    def helper_ctx(ex_, env):
        I = ex_.interp
        ch = ex_.alloc(HSymList(ex_.fresh('children', SeqVal)))
        ex_.heap[ch.addr].elem_hint = ('abs', 'CtxChild')
        attrs = {'_children': ch, '_target': I.sym('ctx_target'), '_args': I.sym('ctx_args'), '_kwargs': I.sym('ctx_kwargs'),
                 '_extra_state': ex_.alloc(HDict({})), '_payload': I.sym('payload'), '_remote': VBool(True), '_id': I.sym('ctx_id')}
        env['self'] = ex_.alloc(HObj(repo.cls(RC), attrs))
        env['children'] = ch
        env['k0'] = VInt(ex_.fresh('k0', smt.Int))
        ex_.ext_models['os.kill'] = lambda ex2, a, k: NONE

    def clean_setup(ex_, env):
        helper_ctx(ex_, env)
        env['cli'] = NONE
        env['_check_payload'] = VBool(False)
        env['_clean'] = VBool(True)

    def all_terminated(c):
        ex_ = c.ex
        S = ex_.old['heap'][c.env['children'].addr].seq
        k0 = c.env['k0'].e
        ac = ex_.abs_classes['CtxChild']
        return z3.Implies(z3.And(k0 >= 0, k0 < z3.Length(S)), z3.Select(ac.arr(ex_, 'terminated'), Val.vakey(S[k0])))
    all_terminated.__doc__ = 'terminate(timeout=1, force=True) has been called on EVERY worker of the context (arbitrary position k0), also when an earlier one raised'

    def visited_terminated(c):
        ex_ = c.ex
        S = c.env['__seq__'].e
        k0 = c.env['k0'].e
        ac = ex_.abs_classes['CtxChild']
        return z3.Implies(z3.And(k0 >= 0, k0 < c.env['__i__'].e), z3.Select(ac.arr(ex_, 'terminated'), Val.vakey(S[k0])))
    visited_terminated.__doc__ = 'every worker already visited has been asked to terminate'
    L4 = Contract(
        RC + '._create_worker', lid='L4', name='C18.L4 deleting a context terminates every worker it created (the clean-up loop of the helper)',
        params={'self': ('const', None), 'cli': ('const', None), '_check_payload': ('const', None), '_clean': ('const', None)}, self_class=RC, setup=clean_setup,
        ensures=[all_terminated, 'result'], raises={}, raises_only=[], returns='bool',
        loops={0: Loop(invariant=[visited_terminated], modifies=['abs:CtxChild.terminated'], variant='__n__ - __i__')},
        options={'recv_closed_check': False})

    def create_setup(ex_, env):
        helper_ctx(ex_, env)
        env['cli'] = common.new_chan(ex_, 'Conn', 'cli')
        env['_check_payload'] = VBool(False)
        env['_clean'] = VBool(False)
        ex_.ghost['patches_seen'] = []

        def recv_hook(I, fi, a, k, n, s):
            pv = a[1] if len(a) > 1 else k.get('state_overwrites')
            ex_.ghost['patches_seen'].append(pv)
            if ex_.choose(2, 'recv_msg:outcome') == 1:
                raise common.PyRaise(VExc('ConnectionClosedError', []))
            w = VAbs('CtxChild', ex_.fresh('received_worker', Val))
            ex_.ghost['received'] = w
            return w
        ex_.ghost['__call_hooks__'] = {'pyworkers.remote.recv_msg': recv_hook}

    def supplied(c):
        ex_ = c.ex
        seen = ex_.ghost['patches_seen']
        if len(seen) != 1 or not isinstance(seen[0], VRef) or not isinstance(ex_.heap[seen[0].addr], HDict):
            return z3.BoolVal(False)
        p = ex_.heap[seen[0].addr].items
        a = ex_.heap[c.env['self'].addr].attrs
        need = {'_socket': c.env['cli'], '_target': a['_target'], '_args': a['_args'], '_kwargs': a['_kwargs']}
        ok = all(k in p and p[k] is v for k, v in need.items()) and isinstance(p.get('_reset_sigterm_hnd'), VBool)
        return z3.BoolVal(bool(ok))
    supplied.__doc__ = ('the worker is received with exactly one set of patches: _socket = the client\'s connection, _target/_args/_kwargs = the context\'s own '
                        '(the worker runs the context\'s work), _reset_sigterm_hnd set')

    def recorded(c):
        ex_ = c.ex
        S0 = ex_.old['heap'][c.env['children'].addr].seq
        S1 = ex_.heap[c.env['children'].addr].seq
        w = ex_.ghost.get('received')
        res = ex_.interp.truth(c.env['result'])
        res = res if isinstance(res, z3.ExprRef) else z3.BoolVal(bool(res))
        if w is None:
            return z3.And(z3.Not(res), S1 == S0)
        return z3.And(res, S1 == z3.Concat(S0, z3.Unit(lower(w, ex_))))
    recorded.__doc__ = 'a received worker is appended to the context\'s children and True is returned; a lost connection returns False and records nothing'
    L3 = Contract(
        RC + '._create_worker', lid='L3', name='C18.L3 a worker sent to a context is received with the context\'s target and defaults and recorded for clean-up',
        params={'self': ('const', None), 'cli': ('const', None), '_check_payload': ('const', None), '_clean': ('const', None)}, self_class=RC, setup=create_setup,
        ensures=[supplied, recorded], raises={}, raises_only=[], returns='bool', options={'recv_closed_check': False})

    RCW = 'pyworkers.remote_context.RemoteContextWorker'

    def dw_setup(ex_, env):
        I = ex_.interp
        calls = []
        ex_.ghost['ctx_calls'] = calls
        tgt = I.sym('create_worker_bound')
        env['self'] = ex_.alloc(HObj(repo.cls(RCW), {'_target': tgt, '_children': ex_.alloc(HList([]))}))

        def opaque(ex2, f, a, k, node):
            if f is tgt:
                def tv(v):
                    t = ex2.interp.truth(v)
                    return t if isinstance(t, bool) else (True if z3.is_true(smt.simp(t)) else False if z3.is_false(smt.simp(t)) else None)
                calls.append(sorted((kk, tv(vv)) for kk, vv in k.items()))
                return VBool(True)
            raise common.Undecided(f'opaque call {f!r}')
        ex_.ghost['__opaque_call__'] = opaque

        def super_do_work(I2, fi, a, k, n, s):
            calls.append('serve')
            if ex_.choose(2, 'serve:outcome') == 1:
                raise common.PyRaise(VExc('AnyBaseException', []))
            return VSym(ex_.fresh('served', Val))
        ex_.ghost['__call_hooks__'] = {repo.lookup_method(repo.cls(RCW), 'do_work', after=repo.cls(RCW))[0].qualname: super_do_work}

    def always_cleans(c):
        calls = c.ex.ghost['ctx_calls']
        ok = len(calls) == 3 and calls[0] == [('_check_payload', True)] and calls[1] == 'serve' and calls[2] == [('_clean', True)]
        return z3.BoolVal(bool(ok))
    always_cleans.__doc__ = 'the helper unpacks the payload, serves requests, and ALWAYS runs the clean-up when serving ends - normally or by any exception'
    L4b = Contract(RCW + '.do_work', lid='L4b', name='C18.L4b the context helper always runs its clean-up when it stops serving',
                   params={'self': ('const', None)}, self_class=RCW, setup=dw_setup, all_exits=[always_cleans],
                   raises={'AnyBaseException': None}, raises_only=['AnyBaseException'])
    return lemmas + [(L2a, None), (L2b, None), (L3, None), (L4, None), (L4b, None)]


def replay(ob, repo):
    if 'remote_context' in ob['site'] or 'C18.L' in ob.get('text', ''):
        from pyvc.native import run_script
        r = run_script('c18_native.py', {'lemma': ob['lemma'].split(' ')[0]}, repo, timeout=150)
        return bool(r.get('violates')), r
    return _c11.replay(ob, repo)


replay_file = _c11.replay_file
