"""C07 - Pool.run yields exactly one result per input under every schedule and death."""
from pyvc.values import *  # noqa
from . import common, pool

ID = 'C07'
MIN_OBLIGATIONS = 50
TRUSTED = [pool.pworker_class().text, common.TEXT['target']]
ASSUMPTIONS = [
    'A-wid: handle_new_result reads run()\'s local `wid` in a log line; at its only call site that local has just been unpacked from the message and the worker looked up under it, so it is bound and equals worker.id - assumed in lemma Ln, not re-checked at the call site (since arguments of logger.* calls are evaluated, an unbound `wid` there would be an UnboundLocalError out of Pool.run)',
]


MUTANTS = [
    ('pyworkers/pool.py', "                self._pending_per_worker[worker.id].pop(0)\n", "                self._pending_per_worker[worker.id].pop()\n", 'answered input taken from the wrong end of the pending list'),
    ('pyworkers/pool.py', "                self._pending_per_worker[worker.id].clear()\n", "", 'pending inputs of a dead worker not cleared'),
    ('pyworkers/pool.py', "                self._pending -= len(self._pending_per_worker[worker.id])\n", "                self._pending -= len(self._pending_per_worker[worker.id]) + 1\n", 'pending counter decremented once too often on death'),
    ('pyworkers/pool.py', "            ok = (self._depleted and not self._pending and not self._retries)", "            ok = (self._depleted and not self._pending)", 'ok ignores inputs still waiting in retries'),
    ('pyworkers/pool.py', "                if self._retry:\n                    self._retries.extend(self._pending_per_worker[worker.id])\n", "", 'inputs of a dead worker are never re-queued'),
    ('pyworkers/pool.py', "                if from_retries:\n                    self._retries.insert(0, data)\n                else:\n                    self._retries.append(data)", "                if not from_retries:\n                    self._retries.append(data)", 'a retried input that could not be enqueued is dropped'),
    ('pyworkers/pool.py', "            while self._pending and set(self._get_all_workers_ids()).difference(self._closed):", "            while (self._pending or self._retries) and set(self._get_all_workers_ids()).difference(self._closed):", 'loop waits for messages although nothing is pending'),
    ('pyworkers/pool.py', "                                handle_death(worker, 'while enqueueing')\n                                handle_unused_data(inp, from_retries)\n", "                                handle_death(worker, 'while enqueueing')\n", 'input in hand lost when the worker dies while enqueueing'),
    ('pyworkers/pool.py', "                self._pending += 1\n                self._pending_per_worker[worker.id].append(data)", "                self._pending += 1\n                self._pending_per_worker[worker.id].insert(0, data)", 'pending inputs recorded in reverse order'),
    ('pyworkers/pool.py', "                if return_results:\n                    ret.append(result)", "                if return_results and result is not None:\n                    ret.append(result)", 'None results are not collected'),
    ('pyworkers/pool.py', "                    elif worker.id not in self._closed:", "                    elif worker.id in self._closed:", 'results of live workers ignored'),
    ('pyworkers/pool.py', "                    if idle.id not in self._closed and not self._pending_per_worker[idle.id]:\n", "                    if False:\n", 'retry loop spins again when the user enqueue function refuses the retried input'),
]


def build(ex, strict_poolerror=False):
    pool.install(ex)
    cons = pool.build_closure_contracts(ex)
    run = pool.build_run_contract(ex, strict_poolerror)
    return [(cons[n], None) for n in ('get_next_idle_worker', 'try_enqueue', 'handle_death', 'handle_new_result', 'first_enqueue', 'first_enqueue0')] + [(run, None)]


# ------------------------------------------------------------------------------ replay on the real code
def _scenario(ob):
    tr = ' '.join(ob.get('trace', []))
    if 'enqueue_fn:refused' in tr and 'var-dec' in ob['site']:
        return {'name': 'refuse_livelock'}
    if '/block#' in ob['site']:
        return {'name': 'refuse_orphan'}
    if 'first_enqueue' in ob['site'] and 'not in _closed' in ob['text']:
        return {'name': 'dead_before_run_noretry'}
    if 'handle_new_result' in ob['text'] or 'recv:result' in tr:
        m = ob.get('model') or {}
        return {'name': 'late_result', 'extra': max(1, int(m.get('extra_pending', 1)) if isinstance(m.get('extra_pending', 1), int) else 1),
                'retry': bool(m.get('retry', True))}
    return {}          # try every scenario


def replay(ob, repo):
    from pyvc.native import run_script
    r = run_script('c07_native.py', _scenario(ob), repo, timeout=120)
    return bool(r.get('violates')), r


def replay_file(path, repo):
    import json
    from pyvc.native import run_script
    d = json.load(open(path))
    sc = (d.get('replay') or {}).get('scenario') or {}
    r = run_script('c07_native.py', sc, repo, timeout=120)
    print(json.dumps(r, indent=1, default=str))
    if r.get('violates'):
        print(f'VIOLATION property=C07 replay={path}')
        return 1
    return 0
