"""C11 - the remote server survives every client failure (cone shared with C18, C20.L3, C12.L1: RemoteServer.run)."""
import z3

from pyvc import smt
from pyvc.smt import Val, ValList, SeqVal
from pyvc.values import *  # noqa
from pyvc.contracts import Contract, Loop, InjectCfg
from pyvc.core import PyRaise
from . import common, server
from .server import RS, F, S

ID = 'C11'
MIN_OBLIGATIONS = 20
TRUSTED = [common.TEXT['msgsock'], server.lsock_class().text, server.rctx_class().text,
           'itertools.chain(a, b) yields every element of a then every element of b',
           'server-side RemoteWorker.__setstate__ (run by unpickling the worker payload) fails only with ConnectionClosedError when the client goes away during the handshake: lemma L2 up to the creation of the backend (raises_only), under T: on a connection the peer has reset getpeername() fails with ENOTCONN while getsockname() still works']
ASSUMPTIONS = [
    'clients send messages of the protocol\'s types (header None or (ctx_id, bool); context payload None or a RemoteContext); what is unconstrained is WHERE the stream ends (every truncation point) and whether a reply can still be delivered',
    'C11.L2 (no capture) covers the wait for the control connection inside the server-side RemoteWorker.__setstate__ (the only wait of the accept loop\'s thread on a client other than reading its request); the waits on the server\'s OWN freshly spawned backend process further down that function are lemma L2s: the wait for the backend\'s report must also watch the backend\'s exit (the remote control thread sets _startup_sync as its first action: read, not verified); what the backend does after reporting is C20/C12',
    'L2 environment: the client may vanish at any moment; TCP then makes the data socket readable (FIN/RST, keep-alive for a silent host: T2/T9); a client that stays connected but never opens the control connection is not a *failure* in the sense of the property and is not covered',
    'server shutdown (terminate()/SIGTERM) is modelled as WorkerTerminatedError raised while the server is blocked in accept(); landing at other points of the loop is C12.L4 (thorough, not in this round)',
]


def build_run_contract(ex, prop):
    def setup(ex_, env):
        server.server_state(ex_, env)

    def contexts_of(ex_, env, snap=None):
        a = (snap['heap'] if snap else ex_.heap)[env['self'].addr].attrs
        return (snap['heap'] if snap else ex_.heap)[a['contexts'].addr]

    # ---- step relation of one loop iteration
    def client_settled(c):
        ex_ = c.ex
        cli = ex_.ghost.get('cur_cli')
        if cli is None:
            return z3.BoolVal(True)
        return z3.Or(z3.Not(F(ex_, 'Conn', cli, 'open')), z3.Length(F(ex_, 'Conn', cli, 'out')) > 0, ex_.ghost['cli_handed'],
                     ex_.ghost['cli_gone'], ex_.ghost['cli_no_reply_expected'])
    client_settled.__doc__ = ('C20.L3: before the next accept() the client socket of this iteration has been answered, handed to a '
                              'worker/context, or closed, or the client itself is gone (otherwise that client waits for ever)')

    def context_transition(c):
        """C18.L1: create/delete as transitions of the context table, with the reply"""
        ex_ = c.ex
        cli = ex_.ghost.get('cur_cli')
        if cli is None:
            return z3.BoolVal(True)
        start = ex_.ghost['__iter_start__']
        old = contexts_of(ex_, c.env, start)
        new = contexts_of(ex_, c.env)
        inq = F(ex_, 'Conn', cli, 'inq')
        ipos = F(ex_, 'Conn', cli, 'ipos')
        out = F(ex_, 'Conn', cli, 'out')
        hdr = inq[0]
        cid = ValList.vl_hd(Val.vitems(hdr))
        is_worker = Val.vb(ValList.vl_hd(ValList.vl_tl(Val.vitems(hdr))))
        payload = inq[1]
        replied = z3.Length(out) == 1
        reply = Val.vb(out[0])
        ctx_req = z3.And(ipos >= 2, hdr != Val.v_none, z3.Not(is_worker))
        create = z3.And(ctx_req, payload != Val.v_none)
        delete = z3.And(ctx_req, payload == Val.v_none)
        was = z3.Select(old.dom, cid)
        create_ok = z3.And(
            z3.Implies(was, z3.And(new.dom == old.dom, new.map == old.map, z3.Implies(replied, z3.Not(reply)))),
            z3.Implies(z3.Not(was), z3.And(new.dom == z3.Store(old.dom, cid, True), z3.Select(new.map, cid) == payload,
                                           z3.Implies(replied, reply))))
        delete_ok = z3.And(new.dom == z3.Store(old.dom, cid, False),
                           z3.Implies(z3.And(z3.Not(was), replied), reply))
        other = z3.Implies(z3.Not(ctx_req), z3.And(new.dom == old.dom))
        return z3.And(z3.Implies(create, create_ok), z3.Implies(delete, delete_ok), other)
    context_transition.__doc__ = ('C18.L1: registering an existing id leaves the table unchanged and replies False; a new id is added and '
                                  'replies True; deleting removes exactly that id (unknown id: no change, no exception, reply True); '
                                  'worker requests never change the table')

    def only_new_child(c):
        """C11.L3 isolation: existing children are untouched; at most the new child is appended"""
        ex_ = c.ex
        start = ex_.ghost['__iter_start__']
        a0 = start['heap'][c.env['self'].addr].attrs
        a1 = ex_.heap[c.env['self'].addr].attrs
        s0 = start['heap'][a0['children'].addr].seq
        s1 = ex_.heap[a1['children'].addr].seq
        c0 = Val.vakey(c.env['c0'].t)
        cli = ex_.ghost.get('cur_cli')
        deleted = z3.BoolVal(False)
        if cli is not None:
            old = start['heap'][a0['contexts'].addr]
            inq = F(ex_, 'Conn', cli, 'inq')
            cid = ValList.vl_hd(Val.vitems(inq[0]))
            deleted = z3.And(F(ex_, 'Conn', cli, 'ipos') >= 2, inq[1] == Val.v_none, z3.Select(old.dom, cid),
                             Val.vakey(z3.Select(old.map, cid)) == c0)
        same = []
        for f in ('terminated', 'killed'):
            if ('RCtx', f) in start['absfields'] and ('RCtx', f) in ex_.absfields:
                same.append(z3.Select(ex_.absfields[('RCtx', f)], c0) == z3.Select(start['absfields'][('RCtx', f)], c0))
        nk = ex_.ghost.get('new_child_key')
        if nk is not None:
            deleted = z3.Or(deleted, c0 == nk)        # the child created in this iteration did not exist before
        return z3.And(z3.Or(s1 == s0, z3.And(z3.Length(s1) == z3.Length(s0) + 1, z3.PrefixOf(s0, s1))),
                      z3.Or(deleted, z3.And(*same) if same else z3.BoolVal(True)))
    only_new_child.__doc__ = ("C11.L3: the list of children only grows by the child just created; no existing child or context (c0 arbitrary) is "
                              "terminated or killed by a client's request or failure - except the context a delete request names")

    def worker_routed(c):
        """C18.L2 routing of worker requests by the context id of the header - whatever that id is (0, '', False are ids like any other)"""
        ex_ = c.ex
        cli = ex_.ghost.get('cur_cli')
        if cli is None:
            return z3.BoolVal(True)
        start = ex_.ghost['__iter_start__']
        a0 = start['heap'][c.env['self'].addr].attrs
        a1 = ex_.heap[c.env['self'].addr].attrs
        s0 = start['heap'][a0['children'].addr].seq
        s1 = ex_.heap[a1['children'].addr].seq
        old = contexts_of(ex_, c.env, start)
        inq = F(ex_, 'Conn', cli, 'inq')
        ipos = F(ex_, 'Conn', cli, 'ipos')
        hdr = inq[0]
        cid = ValList.vl_hd(Val.vitems(hdr))
        is_worker = Val.vb(ValList.vl_hd(ValList.vl_tl(Val.vitems(hdr))))
        req = z3.And(ipos >= 1, hdr != Val.v_none, is_worker, cid != Val.v_none)
        was = z3.And(z3.Select(old.dom, cid), z3.Select(old.map, cid) != Val.v_none)     # an entry holding None counts as absent (create never stores None: context_transition)
        target = Val.vakey(z3.Select(old.map, cid))
        c0 = Val.vakey(c.env['c0'].t)
        if ('RCtx', 'calls') not in start['absfields'] or ('RCtx', 'calls') not in ex_.absfields:
            return z3.BoolVal(False)
        calls0 = z3.Select(start['absfields'][('RCtx', 'calls')], c0)
        calls1 = z3.Select(ex_.absfields[('RCtx', 'calls')], c0)
        return z3.And(calls1 == calls0 + z3.If(z3.And(req, was, c0 == target), 1, 0),
                      z3.Implies(z3.And(req, was), z3.And(ex_.ghost['cli_handed'], s1 == s0)),
                      z3.Implies(z3.And(req, z3.Not(was)), z3.And(z3.Not(F(ex_, 'Conn', cli, 'open')), s1 == s0)))
    worker_routed.__doc__ = ('C18.L2: a worker request whose header names a context id (anything but None - 0, \'\' and False are ids like any other) is handed to '
                             'the context registered under exactly that id, once, and to no other context (c0 arbitrary), and creates no plain worker; '
                             'if no context is registered under it the client is closed; no other request calls any context')

    main = Loop(header='while True', invariant=['lsock.open', server.was_child_inv],
                modifies=['self.children', 'self.contexts', 'ghost:was_child', 'ghost:none_header_received', 'abs:Conn.inq', 'abs:Conn.ipos', 'abs:Conn.out', 'abs:Conn.open', 'abs:Conn.peer_closed',
                          'abs:RCtx.calls', 'abs:RCtx.waited', 'abs:RCtx.alive', 'abs:RCtx.terminated', 'abs:RCtx.killed', 'abs:RCtx.term_raised'],
                locals={})
    main.step = [client_settled, context_transition, only_new_child, worker_routed]

    # ---- the finally loop over children and contexts (C12.L1)
    def handled_at(k):
        return (f'implies(0 <= {k} and {k} < __i__, terminated(__seq__[{k}]) and '
                f'(term_raised(__seq__[{k}]) or not alive(__seq__[{k}]) or killed(__seq__[{k}])))')
    fin = Loop(header='chain(', invariant=[handled_at('k1'), handled_at('k2'), server.was_child_inv], variant='__n__ - __i__',
               modifies=['ghost:was_child', 'abs:RCtx.alive', 'abs:RCtx.terminated', 'abs:RCtx.term_raised', 'ghost:killed_pids'],
               locals={})

    def handled_term(ex_, x):
        xo = VAbs('RCtx', x)
        pid = Val.v_tup(smt.mk_list([Val.v_str(z3.IntVal(smt.str_code('<pid of>'))), x]))
        return z3.And(F(ex_, 'RCtx', xo, 'terminated'),
                      z3.Or(F(ex_, 'RCtx', xo, 'term_raised'), z3.Not(F(ex_, 'RCtx', xo, 'alive')), z3.Select(ex_.ghost['killed_pids'], pid)))

    def all_reaped(c):
        ex_ = c.ex
        if 'chain_children' not in ex_.ghost:
            return z3.BoolVal(False)       # the loop over chain(children, contexts.values()) was not reached on this exit
        s = ex_.ghost['chain_children']
        p0, q0 = c.env['p0'].e, c.env['q0'].t
        child_ok = z3.Implies(z3.And(p0 >= 0, p0 < z3.Length(s)), handled_term(ex_, Val.vakey(s[p0])))
        ctx_ok = z3.Implies(z3.Select(ex_.ghost['chain_ctx_dom'], q0), handled_term(ex_, Val.vakey(z3.Select(ex_.ghost['chain_ctx_map'], q0))))
        return z3.And(child_ok, ctx_ok)
    all_reaped.__doc__ = ('C12.L1: on every exit of run() terminate(timeout=1, force=True) has been invoked on the child at an arbitrary position p0 of '
                          'self.children and on the context under an arbitrary key q0 of self.contexts and, if it is still alive, SIGTERM was sent '
                          'to it; a failure for one does not skip the others')

    ex.spec_functions['terminated'] = lambda se, w: VBool(z3.Select(se.absfield('RCtx', 'terminated'), Val.vakey(w.t)))
    ex.spec_functions['term_raised'] = lambda se, w: VBool(z3.Select(se.absfield('RCtx', 'term_raised'), Val.vakey(w.t)))
    ex.spec_functions['alive'] = lambda se, w: VBool(z3.Select(se.absfield('RCtx', 'alive'), Val.vakey(w.t)))
    ex.spec_functions['killed'] = lambda se, w: VBool(z3.Select(se.ex.ghost['killed_pids'], Val.v_tup(smt.mk_list([Val.v_str(z3.IntVal(smt.str_code('<pid of>'))), Val.vakey(w.t)]))))

    def stops_only_on_request(c):
        ex_ = c.ex
        a = ex_.heap[c.env['self'].addr].attrs
        return z3.Or(ex_.ghost['terminate_requested'], z3.And(a['close_on_none'].e, ex_.ghost['none_header_received']))
    stops_only_on_request.__doc__ = ('the accept loop ends only on a terminate request or, when close_on_none is set, because the last client SENT the header None - '
                                     'never because a client failed (a client that hangs up without sending a header has not asked for anything)')

    opts = dict(server.OPTIONS)
    opts['chan_elem_inv'] = {f'cli#{i}': server.header_inv for i in range(4)}
    opts['child_terminate_raises'] = ['AnyException']
    opts['recv_closed_check'] = False
    return Contract(
        RS + '.run', lid='Ls', name=f'{prop}.Ls RemoteServer.run: no client failure escapes the accept loop; table transitions; client socket settled; children reaped on exit',
        params={'self': ('const', None)}, self_class=RS, setup=setup,
        ensures=['self.closed', stops_only_on_request], raises={}, raises_only=[],
        all_exits=[all_reaped, 'not lsock.open'],
        loops={0: main, 1: fin}, options=opts,
        inject=InjectCfg([RS + '.run'], budget=0, kinds=(), at_point=server.signal_safe_point))


def opt_ctx(I, nm):
    return VSym(I.ex.fresh(nm, Val), hint=('abs', 'RCtx'))


RW = 'pyworkers.remote.RemoteWorker'


def no_capture_lemma(ex):
    """C11.L2: unpickling a worker request runs RemoteWorker.__setstate__ in the accept loop's own thread.  It must not wait for the control connection
    of this one client without noticing that the client is gone: accept() on the control listening socket may be reached only when a connection is
    known to be pending."""
    from pyvc.contracts import AbsClass
    from pyvc.core import PathEnd
    repo = ex.repo

    def listen_class():
        def accept(ex_, a, k):
            ex_.oblige('block', ex_.ghost['ctrl_pending_known'],
                       'accept() on the control listening socket is reached only when a connection is known to be pending (a client that vanished before '
                       'connecting the control channel would otherwise block the accept loop - and with it the whole server - for ever)',
                       ex_.ghost.get('__cur_node__'), key=('ctrl-accept',))
            conn = common.new_chan(ex_, 'Conn', 'ctrl')
            return VTuple([conn, VSym(ex_.fresh('ctrl_peer', Val))])

        def close(ex_, a, k):
            ex_.ghost['ctrl_listen_closed'] = z3.BoolVal(True)
            return NONE
        noop = lambda ex_, a, k: NONE
        return AbsClass('CtrlListen', fields={}, methods={'bind': noop, 'listen': noop, 'accept': accept, 'close': close, 'settimeout': noop, 'setblocking': noop,
                                                          'getsockname': lambda ex_, a, k: VTuple([VSym(ex_.fresh('ctrl_host', Val)), VSym(ex_.fresh('ctrl_port', Val))]),
                                                          'fileno': lambda ex_, a, k: VInt(ex_.fresh('fd', smt.Int))},
                        text='listening socket of the control channel: accept() blocks until the client connects - for ever if it never does')

    def select_model(ex_, a, k):
        """select.select(rlist, [], [] [, timeout]): returns when one of rlist is readable.  The listening socket is readable when the client has connected,
        the data socket when the client has sent something or is gone; with a time-out it may also return nothing"""
        rl = a[0]
        items = ex_.interp.iter_concrete(rl)
        if items is None:
            raise Undecided('select over a symbolic list')
        listen = [x for x in items if isinstance(x, VAbs) and x.cls == 'CtrlListen']
        others = [x for x in items if x not in listen]
        timeout_given = len(a) > 3 and a[3] is not NONE
        d = ex_.choose(3 if (listen and others) else 2, 'select:environment')
        if d == 0 and listen:
            ex_.note('select:client-connected')
            ready = list(listen)
            ex_.ghost['ctrl_pending_known'] = z3.BoolVal(True)
        elif d == 2:
            ex_.note('select:both-readable')
            ready = list(listen) + list(others)
            ex_.ghost['ctrl_pending_known'] = z3.BoolVal(True)
        else:
            # the client is gone (or, without a listening socket in the list, only data can arrive): nothing will ever connect
            ex_.note('select:client-gone')
            if others:
                ready = list(others)
            elif timeout_given:
                ready = []
            else:
                ex_.oblige('block', z3.BoolVal(False), 'a wait for the control connection of a client also watches the data socket of that client (or has a time-out): '
                           'otherwise a client that vanished before connecting blocks the accept loop for ever', ex_.ghost.get('__cur_node__'), key=('ctrl-select',))
                raise PathEnd('select blocks for ever')
        empty = lambda: ex_.alloc(HList([]))
        return VTuple([ex_.alloc(HList(list(ready))), empty(), empty()])

    def setup(ex_, env):
        I = ex_.interp
        ex_.abs_classes['CtrlListen'] = listen_class()
        cc = ex_.abs_classes['Conn']
        cc.methods.setdefault('getsockname', lambda ex2, a, k: VTuple([VSym(ex2.fresh('host', Val)), VSym(ex2.fresh('port', Val))]))
        def getpeername(ex2, a, k):
            # T: on a connection the peer has RESET (what a killed client whose socket has SO_LINGER 0 produces) getpeername() fails with ENOTCONN;
            # the local address (getsockname) stays available
            if ex2.choose(2, 'cli:getpeername') == 1:
                ex2.note('getpeername: the client has reset the connection (ENOTCONN)')
                raise PyRaise(VExc('OSError', []))
            return VTuple([VSym(ex2.fresh('phost', Val)), VSym(ex2.fresh('pport', Val))])
        cc.methods['getpeername'] = getpeername
        cc.methods.setdefault('settimeout', lambda ex2, a, k: NONE)
        cli = common.new_chan(ex_, 'Conn', 'cli')
        n = [0]

        def new_socket(ex2, a, k):
            n[0] += 1
            return VAbs('CtrlListen', Val.v_str(z3.IntVal(smt.str_code(f'<control listening socket {n[0]}>'))))
        ex_.ext_models['socket.socket'] = new_socket
        ex_.ext_models['select.select'] = select_model
        ex_.ghost['ctrl_pending_known'] = z3.BoolVal(False)
        ex_.ghost['ctrl_listen_closed'] = z3.BoolVal(False)
        env['self'] = ex_.alloc(HObj(repo.cls(RW), {}))
        state = {'_from_remote_parent': VBool(True), '_socket': cli, '_remote_side': VBool(False), '_is_backend': VBool(False),
                 '_payload': VBytes(ex_.fresh('payload', smt.Bytes)), '_context': I.sym('context'), '_name': I.sym('name'), '_child': NONE, '_startup_sync': NONE}
        env['state'] = ex_.alloc(HDict(state))
        hooks = dict(common.MSG_HOOKS)
        hooks['pyworkers.remote.set_keepalive'] = lambda i, fi, a, k, nd, s: NONE
        hooks['pyworkers.remote.set_linger'] = lambda i, fi, a, k, nd, s: NONE
        ex_.ghost['__call_hooks__'] = hooks
        ex_.ghost['send_raises'] = {'cli': ['ConnectionClosedError']}

        def end_of_scope(I2, ci, a, k, node):
            raise PathEnd('creation of the backend: end of the scope of C11.L2')
        ex_.ghost['__new_hooks__'] = {'pyworkers.utils.Pipe': end_of_scope}
        ex_.ghost['recv_closed_check'] = False

    return Contract(RW + '.__setstate__', lid='L2', name='C11.L2 server-side RemoteWorker.__setstate__ never waits for the control connection of a client that is gone, and a client that is gone makes it raise ConnectionClosedError only (what the accept loop handles)',
                    params={'self': ('const', None), 'state': ('const', None)}, self_class=RW, setup=setup,
                    ensures=[], raises={'ConnectionClosedError': None}, raises_only=['ConnectionClosedError'], options={'recv_closed_check': False})


def backend_wait_lemma(ex):
    """C11.L2s: the second half of the server-side RemoteWorker.__setstate__ (still in the accept loop's own thread): after the control connection it spawns
    the backend process and waits for the backend's report on the start-up pipe.  A backend that dies before reporting - e.g. because its client has been
    reset meanwhile and its data socket is dead - never writes, and EOF cannot arrive either (the server holds its own copy of the backend's end of the pipe):
    a plain recv() there blocks the accept loop, and with it the whole server, for ever.  Every wait for the report must also watch the backend's exit."""
    from . import workers as Wk
    base = no_capture_lemma(ex)
    inner = base.setup

    def setup(ex_, env):
        inner(ex_, env)
        if 'Proc' not in ex_.abs_classes:
            ex_.abs_classes['Proc'] = Wk.proc_class()
        # this lemma is about what comes AFTER the control connection: the client has connected it
        sel = ex_.ext_models['select.select']

        def select_connected(ex2, a, k):
            r = sel(ex2, a, k)
            if not z3.is_true(smt.simp(ex2.ghost['ctrl_pending_known'])):
                from pyvc.core import PathEnd
                raise PathEnd('the client vanished before the control connection: scope of C11.L2')
            return r
        ex_.ext_models['select.select'] = select_connected
        pipes = []

        def new_pipe(I2, ci, a, k, node):
            tag = ['comms', 'ctrl', 'pipe3', 'pipe4'][len(pipes)]
            p, ends = common.make_pipe(ex_, tag, 'Pipe')
            pipes.append(ends)
            if tag == 'comms':
                # T3: EOF needs every copy of the write end closed; the server keeps its own copy of the backend's end while it waits
                ex_.abs_classes['Conn'].set(ex_, ends['parent'], 'peer_closed', z3.BoolVal(False))
                env['comms_parent'] = ends['parent']
            return p
        ex_.ghost['__new_hooks__'] = {'pyworkers.utils.Pipe': new_pipe}
        ex_.ext_models['multiprocessing.get_context'] = lambda ex2, a_, k: VExt('mpctx')
        ex_.ext_models['mpctx.Process'] = common.new_thread

        def conn_wait(ex2, args, k):
            lst = ex2.interp.iter_concrete(args[0])
            pipes_in = [x for x in lst if not (isinstance(x, VInt) or isinstance(x, VSym))]
            d = ex2.choose(2, 'wait:backend')
            if d == 0 and pipes_in:
                ac2 = ex2.abs_classes['Conn']
                ex2.assume(ac2.get(ex2, env['comms_parent'], 'ipos') < z3.Length(ac2.get(ex2, env['comms_parent'], 'inq')))
                ex2.note('wait:backend-reported')
                return ex2.alloc(HList(pipes_in[:1]))
            ex2.note('wait:backend-died')
            rest = [x for x in lst if x not in pipes_in]
            if not rest:
                ex2.oblige('block', z3.BoolVal(False), 'a wait for the backend\'s report also watches the backend\'s exit (its sentinel): a backend that dies before '
                           'reporting would otherwise block the accept loop for ever', ex2.ghost.get('__cur_node__'), key=('backend-wait',))
                from pyvc.core import PathEnd
                raise PathEnd('blocked')
            return ex2.alloc(HList(rest[:1]))
        ex_.ghost['__conn_wait__'] = conn_wait
        # the remote control thread sets _startup_sync as its first action (read: _ctrl_fn_remote); modelled as already set when the server waits for it
        ev = ex_.abs_classes['Event']
        orig_wait = ev.methods.get('wait')

        def ev_wait(ex2, a, k):
            ev.set(ex2, a[0], 'isset', z3.BoolVal(True))
            return VBool(True)
        ev.methods = dict(ev.methods, wait=ev_wait)
        ex_.ghost['on_block'] = 'oblige'
        ex_.ghost['chan_elem_inv'] = dict(ex_.ghost.get('chan_elem_inv', {}),
                                          **{'comms.parent': lambda ex2, x, i: z3.And(Val.is_v_tup(x), ValList.is_vl_cons(Val.vitems(x)), ValList.is_vl_cons(ValList.vl_tl(Val.vitems(x))),
                                                                                       ValList.is_vl_cons(ValList.vl_tl(ValList.vl_tl(Val.vitems(x)))),
                                                                                       ValList.is_vl_cons(ValList.vl_tl(ValList.vl_tl(ValList.vl_tl(Val.vitems(x))))),
                                                                                       ValList.is_vl_nil(ValList.vl_tl(ValList.vl_tl(ValList.vl_tl(ValList.vl_tl(Val.vitems(x)))))))})
    base.setup = setup
    base.lid = 'L2s'
    base.name = ('C11.L2s server-side RemoteWorker.__setstate__ never waits for the report of its own backend without watching the backend\'s exit '
                 '(a backend whose client is gone dies before reporting)')
    return base


def request_state_lemma(ex):
    """L4: what a worker request carries: RemoteWorker.__getstate__(remote=True) on the parent side returns a COPY of the object's dictionary in which everything
    that must not travel is blanked (_child, _socket, _startup_sync), the work is carried as one pickled payload (unless the worker belongs to a context) and
    the marker _from_remote_parent is set - and the parent's own object is left exactly as it was (its socket and thread are still needed)"""
    from pyvc import extlib
    repo = ex.repo

    def setup(ex_, env):
        I = ex_.interp
        from . import workers as Wk
        if 'Proc' not in ex_.abs_classes:
            ex_.abs_classes['Proc'] = Wk.proc_class()
        child = VAbs('Proc', Val.v_str(z3.IntVal(smt.str_code('<front-end thread>'))))
        sock = common.new_chan(ex_, 'Conn', 'data')
        sync = common.new_event(ex_)
        ctxv = ex_.fresh('context', Val)
        attrs = {'_remote_side': VBool(False), '_is_backend': VBool(False), '_context': VSym(ctxv), '_target': I.sym('target'), '_args': I.sym('args'),
                 '_kwargs': I.sym('kwargs'), '_socket': sock, '_child': child, '_startup_sync': sync, '_name': I.sym('name'), '_from_remote_parent': VBool(False),
                 '_payload': NONE, '_started': VBool(True), '_dead': VBool(False), '_result': NONE, '_user_state': I.sym('state0')}
        env['self'] = ex_.alloc(HObj(repo.cls(RW), attrs))
        env['remote'] = VBool(True)
        env['attrs0'] = dict(attrs)
        env['ctxv'] = VSym(ctxv)
        ex_.ghost['dumps_raises'] = []

    def post(c):
        ex_ = c.ex
        r = c.env['result']
        if not (isinstance(r, VRef) and isinstance(ex_.heap[r.addr], HDict)):
            return z3.BoolVal(False)
        st = ex_.heap[r.addr].items
        a0 = c.env['attrs0']
        a1 = ex_.heap[c.env['self'].addr].attrs
        same_self = set(a1) == set(a0) and all(a1[k] is a0[k] for k in a0)
        blanked = all(st.get(k, 'missing') is NONE for k in ('_child', '_socket', '_startup_sync'))
        dropped = not any(k in st for k in ('_target', '_args', '_kwargs'))
        marked = isinstance(st.get('_from_remote_parent'), VBool) and z3.is_true(smt.simp(st['_from_remote_parent'].e))
        rest = all(k in st and st[k] is a0[k] for k in a0 if k not in ('_child', '_socket', '_startup_sync', '_target', '_args', '_kwargs', '_from_remote_parent', '_payload'))
        structural = z3.BoolVal(bool(same_self and blanked and dropped and marked and rest and r.addr != c.env['self'].addr))
        work = Val.v_tup(smt.mk_list([lower(a0['_target'], ex_), lower(a0['_args'], ex_), lower(a0['_kwargs'], ex_)]))
        pl = st.get('_payload')
        no_ctx = c.env['ctxv'].t == Val.v_none
        if isinstance(pl, VBytes):
            payload_ok = z3.And(no_ctx, pl.e == extlib.pickle_b(work))
        else:
            payload_ok = z3.And(z3.Not(no_ctx), z3.BoolVal(pl is NONE))
        return z3.And(structural, payload_ok)
    post.__doc__ = ('the state sent to the server is a copy of the dictionary with _child/_socket/_startup_sync blanked, _target/_args/_kwargs replaced by one payload '
                    '= dumps((target, args, kwargs)) exactly when the worker has no context, _from_remote_parent set, everything else as it is; the parent object itself is unchanged')
    return Contract(RW + '.__getstate__', lid='L4', name='C11.L4 what a worker request carries: RemoteWorker.__getstate__(remote=True) scrubs a copy, never the parent object',
                    params={'self': ('const', None), 'remote': ('const', None)}, self_class=RW, setup=setup, ensures=[post], raises={}, raises_only=[],
                    options={'recv_closed_check': False})


def build(ex):
    server.install(ex)
    return [(build_run_contract(ex, ex.prop), None), (no_capture_lemma(ex), None), (backend_wait_lemma(ex), None), (request_state_lemma(ex), None)] + transport_lemmas(ex) \
        + residue_lemmas(ex)


def residue_lemmas(ex):
    """L6: the accept loop receives every request on ONE thread, and Ls takes recv_msg as 'a value, ConnectionClosedError, or the exception of THIS message'.
    A request that cannot be unpickled (a faulty client) must therefore leave nothing behind on that thread that makes the NEXT recv_msg fail: remote
    unpickling keeps per-thread state (RemoteState._active_contexts), and that a new context starts from whatever an earlier, failed loads left behind - and
    never raises - is the lemma L1-init of the C14/C15 cone, checked here too."""
    from . import rstate
    saved_abs, saved_ext, saved_spec = dict(ex.abs_classes), dict(ex.ext_models), dict(ex.spec_functions)
    rstate.install(ex)
    built = rstate.context_lemmas(ex, 'C11')
    for k_, v_ in saved_abs.items():
        ex.abs_classes[k_] = v_
    for k_, v_ in saved_ext.items():
        ex.ext_models[k_] = v_
    for k_, v_ in saved_spec.items():
        ex.spec_functions[k_] = v_
    out = []
    for con, v in built:
        if con.lid == 'L1-init':
            con.lid = 'L6'
            con.name = ('C11.L6 a request that could not be unpickled leaves nothing behind on the accept thread that makes the next one fail: a new unpickling '
                        'context starts from whatever an earlier loads left; never raises')
            out.append((con, v))
    return out


def transport_lemmas(ex):
    """L5: every lemma above takes send_msg as 'appends the message or raises ConnectionClosedError' - the only per-client failure the accept loop (and the
    context helper) are prepared for.  That classification is itself an obligation: the contract of the C10 cone on send_msg (raises_only), checked here too."""
    from . import C10 as _c10
    saved_abs, saved_ext, saved_spec = dict(ex.abs_classes), dict(ex.ext_models), dict(ex.spec_functions)
    built = _c10.build(ex)
    for k_, v_ in saved_abs.items():
        ex.abs_classes[k_] = v_
    for k_, v_ in saved_ext.items():
        ex.ext_models[k_] = v_
    for k_, v_ in saved_spec.items():
        ex.spec_functions[k_] = v_
    out = []
    for con, v in built:
        if con.lid == 'L1':
            con.lid = 'L5'
            con.name = 'C11.L5 send_msg reports every failure of the socket as ConnectionClosedError (and writes exactly one frame otherwise)'
            out.append((con, v))
    return out


MUTANTS = [
    ('pyworkers/remote_server.py', "                    logger.info('Client disconnected before sending a request')\n                    continue", "                    logger.info('Client disconnected before sending a request')\n                    header = None", 'a client that hangs up before its header is treated as the None request (stops a close_on_none server)'),
    ('pyworkers/remote.py', "            state = self.__dict__.copy()\n            state['_from_remote_parent'] = True", "            state = self.__dict__\n            state['_from_remote_parent'] = True", 'sending a worker scrubs the parent object itself (its socket and thread are lost)'),
    ('pyworkers/remote.py', "            state['_socket'] = None # _socket will be injected by the server on the remote side\n", "", 'the parent\'s data socket travels with the request'),
    ('pyworkers/remote.py', "            if incoming not in ready:\n                incoming.close()\n                raise ConnectionClosedError()\n", "", 'the control accept is entered although only the data socket became readable'),
    ('pyworkers/remote.py', "            ready, _, _ = select.select([incoming, self._socket], [], [])\n", "            ready, _, _ = select.select([incoming], [], [])\n            ready = [incoming]\n", 'the wait for the control connection no longer watches the data socket'),
    ('pyworkers/remote_server.py', "                        except ConnectionClosedError:\n                            logger.info('Client disconnected before child was successfully created')\n                            continue", "                        except KeyError:\n                            continue", 'worker payload receive no longer guarded'),
    ('pyworkers/remote_server.py', "                            logger.warning('Context {} already exists', ctx_id)\n                            result = False\n", "                            logger.warning('Context {} already exists', ctx_id)\n                            result = False\n                            self.contexts[ctx_id] = context\n", 'a duplicate registration replaces the first context'),
    ('pyworkers/remote_server.py', "                        current = self.contexts.pop(ctx_id, None)", "                        current = self.contexts.get(ctx_id, None)", 'delete does not remove the context from the table'),
    ('pyworkers/remote_server.py', "            for child in itertools.chain(self.children, self.contexts.values()):", "            for child in itertools.chain(self.children, []):", 'contexts are not terminated when the server stops'),
    ('pyworkers/remote_server.py', "                    if child.is_alive():\n                        os.kill(child.pid, signal.SIGTERM)\n                except:", "                    pass\n                except:", 'survivors of terminate() are not signalled'),
    ('pyworkers/remote_server.py', "                            cli.close()\n                            continue", "                            continue", 'unknown context: client socket left open'),
    ('pyworkers/remote_server.py', "                        self.children.append(child)", "                        self.children = [child]", 'a new worker makes the server forget its earlier children'),
    ('pyworkers/remote_server.py', "                    if self.close_on_none:\n", "                    if True:\n", 'any client can stop the server with a None header'),
]


def replay(ob, repo):
    from pyvc.native import run_script
    if 'C11.L5' in ob.get('lemma', ''):
        r = run_script('c10_native.py', {'msgs': [['request', 1]]}, repo, timeout=60)
        return bool(r.get('violates')), r
    if 'C11.L6' in ob.get('lemma', ''):     # a failed unpickling (client gone during the control handshake), then a healthy client
        r = run_script('c11_native.py', {'name': 'no_ctrl_connect'}, repo, timeout=200)
        return bool(r.get('violates')), r
    if 'C18.L' in ob.get('text', ''):       # context table transitions / routing of worker requests by context id: the scenarios of the context helper
        r = run_script('c18_native.py', {'lemma': 'C18.L2'}, repo, timeout=150)
        return bool(r.get('violates')), r
    r = run_script('c11_native.py', {'name': 'all'}, repo, timeout=250)
    return bool(r.get('violates')), r


def replay_file(path, repo):
    import json
    from pyvc.native import run_script
    r = run_script('c11_native.py', {'name': 'all'}, repo, timeout=150)
    print(json.dumps(r, indent=1, default=str))
    if r.get('violates'):
        print(f'VIOLATION property=C11 replay={path}')
        return 1
    return 0
