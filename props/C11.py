"""C11 - the remote server survives every client failure (cone shared with C18, C20.L3, C12.L1: RemoteServer.run)."""
import z3

from pyvc import smt
from pyvc.smt import Val, ValList, SeqVal
from pyvc.values import *  # noqa
from pyvc.contracts import Contract, Loop, InjectCfg
from . import common, server
from .server import RS, F, S

ID = 'C11'
MIN_OBLIGATIONS = 20
TRUSTED = [common.TEXT['msgsock'], server.lsock_class().text, server.rctx_class().text,
           'itertools.chain(a, b) yields every element of a then every element of b',
           'server-side RemoteWorker.__setstate__ (run by unpickling the worker payload) fails only with ConnectionClosedError when the client goes away during the handshake (its own lemma is not in this round; see assumptions)']
ASSUMPTIONS = [
    'clients send messages of the protocol\'s types (header None or (ctx_id, bool); context payload None or a RemoteContext); what is unconstrained is WHERE the stream ends (every truncation point) and whether a reply can still be delivered',
    'C11.L2 (no capture): the control-channel accept() inside RemoteWorker.__setstate__ and ctx.call(cli) wait for this one client without a bound; not decided in this round (design probe: finding unless a timeout is acceptable upstream)',
    'server shutdown (terminate()/SIGTERM) is modelled as WorkerTerminatedError raised while the server is blocked in accept(); landing at other points of the loop is C12.L4 (thorough, not in this round)',
]


def build_run_contract(ex, prop):
    def setup(ex_, env):
        server.server_state(ex_, env)

    def contexts_of(ex_, env, snap=None):
        a = (snap['heap'] if snap else ex_.heap)[env['self'].addr].attrs
        return (snap['heap'] if snap else ex_.heap)[a['contexts'].addr]

    # ---- step relation of one loop iteration
    def client_settled(c):
        ex_ = c.ex
        cli = ex_.ghost.get('cur_cli')
        if cli is None:
            return z3.BoolVal(True)
        return z3.Or(z3.Not(F(ex_, 'Conn', cli, 'open')), z3.Length(F(ex_, 'Conn', cli, 'out')) > 0, ex_.ghost['cli_handed'],
                     ex_.ghost['cli_gone'], ex_.ghost['cli_no_reply_expected'])
    client_settled.__doc__ = ('C20.L3: before the next accept() the client socket of this iteration has been answered, handed to a '
                              'worker/context, or closed, or the client itself is gone (otherwise that client waits for ever)')

    def context_transition(c):
        """C18.L1: create/delete as transitions of the context table, with the reply"""
        ex_ = c.ex
        cli = ex_.ghost.get('cur_cli')
        if cli is None:
            return z3.BoolVal(True)
        start = ex_.ghost['__iter_start__']
        old = contexts_of(ex_, c.env, start)
        new = contexts_of(ex_, c.env)
        inq = F(ex_, 'Conn', cli, 'inq')
        ipos = F(ex_, 'Conn', cli, 'ipos')
        out = F(ex_, 'Conn', cli, 'out')
        hdr = inq[0]
        cid = ValList.vl_hd(Val.vitems(hdr))
        is_worker = Val.vb(ValList.vl_hd(ValList.vl_tl(Val.vitems(hdr))))
        payload = inq[1]
        replied = z3.Length(out) == 1
        reply = Val.vb(out[0])
        ctx_req = z3.And(ipos >= 2, hdr != Val.v_none, z3.Not(is_worker))
        create = z3.And(ctx_req, payload != Val.v_none)
        delete = z3.And(ctx_req, payload == Val.v_none)
        was = z3.Select(old.dom, cid)
        create_ok = z3.And(
            z3.Implies(was, z3.And(new.dom == old.dom, new.map == old.map, z3.Implies(replied, z3.Not(reply)))),
            z3.Implies(z3.Not(was), z3.And(new.dom == z3.Store(old.dom, cid, True), z3.Select(new.map, cid) == payload,
                                           z3.Implies(replied, reply))))
        delete_ok = z3.And(new.dom == z3.Store(old.dom, cid, False),
                           z3.Implies(z3.And(z3.Not(was), replied), reply))
        other = z3.Implies(z3.Not(ctx_req), z3.And(new.dom == old.dom))
        return z3.And(z3.Implies(create, create_ok), z3.Implies(delete, delete_ok), other)
    context_transition.__doc__ = ('C18.L1: registering an existing id leaves the table unchanged and replies False; a new id is added and '
                                  'replies True; deleting removes exactly that id (unknown id: no change, no exception, reply True); '
                                  'worker requests never change the table')

    def only_new_child(c):
        """C11.L3 isolation: existing children are untouched; at most the new child is appended"""
        ex_ = c.ex
        start = ex_.ghost['__iter_start__']
        a0 = start['heap'][c.env['self'].addr].attrs
        a1 = ex_.heap[c.env['self'].addr].attrs
        s0 = start['heap'][a0['children'].addr].seq
        s1 = ex_.heap[a1['children'].addr].seq
        c0 = Val.vakey(c.env['c0'].t)
        cli = ex_.ghost.get('cur_cli')
        deleted = z3.BoolVal(False)
        if cli is not None:
            old = start['heap'][a0['contexts'].addr]
            inq = F(ex_, 'Conn', cli, 'inq')
            cid = ValList.vl_hd(Val.vitems(inq[0]))
            deleted = z3.And(F(ex_, 'Conn', cli, 'ipos') >= 2, inq[1] == Val.v_none, z3.Select(old.dom, cid),
                             Val.vakey(z3.Select(old.map, cid)) == c0)
        same = []
        for f in ('terminated', 'killed'):
            if ('RCtx', f) in start['absfields'] and ('RCtx', f) in ex_.absfields:
                same.append(z3.Select(ex_.absfields[('RCtx', f)], c0) == z3.Select(start['absfields'][('RCtx', f)], c0))
        nk = ex_.ghost.get('new_child_key')
        if nk is not None:
            deleted = z3.Or(deleted, c0 == nk)        # the child created in this iteration did not exist before
        return z3.And(z3.Or(s1 == s0, z3.And(z3.Length(s1) == z3.Length(s0) + 1, z3.PrefixOf(s0, s1))),
                      z3.Or(deleted, z3.And(*same) if same else z3.BoolVal(True)))
    only_new_child.__doc__ = ("C11.L3: the list of children only grows by the child just created; no existing child or context (c0 arbitrary) is "
                              "terminated or killed by a client's request or failure - except the context a delete request names")

    main = Loop(invariant=['lsock.open', server.was_child_inv],
                modifies=['self.children', 'self.contexts', 'ghost:was_child', 'abs:Conn.inq', 'abs:Conn.ipos', 'abs:Conn.out', 'abs:Conn.open', 'abs:Conn.peer_closed',
                          'abs:RCtx.calls', 'abs:RCtx.waited', 'abs:RCtx.alive', 'abs:RCtx.terminated', 'abs:RCtx.killed', 'abs:RCtx.term_raised'],
                locals={})
    main.step = [client_settled, context_transition, only_new_child]

    # ---- the finally loop over children and contexts (C12.L1)
    def handled_at(k):
        return (f'implies(0 <= {k} and {k} < __i__, terminated(__seq__[{k}]) and '
                f'(term_raised(__seq__[{k}]) or not alive(__seq__[{k}]) or killed(__seq__[{k}])))')
    fin = Loop(invariant=[handled_at('k1'), handled_at('k2'), server.was_child_inv], variant='__n__ - __i__',
               modifies=['ghost:was_child', 'abs:RCtx.alive', 'abs:RCtx.terminated', 'abs:RCtx.term_raised', 'ghost:killed_pids'],
               locals={})

    def handled_term(ex_, x):
        xo = VAbs('RCtx', x)
        pid = Val.v_tup(smt.mk_list([Val.v_str(z3.IntVal(smt.str_code('<pid of>'))), x]))
        return z3.And(F(ex_, 'RCtx', xo, 'terminated'),
                      z3.Or(F(ex_, 'RCtx', xo, 'term_raised'), z3.Not(F(ex_, 'RCtx', xo, 'alive')), z3.Select(ex_.ghost['killed_pids'], pid)))

    def all_reaped(c):
        ex_ = c.ex
        if 'chain_children' not in ex_.ghost:
            return z3.BoolVal(False)       # the loop over chain(children, contexts.values()) was not reached on this exit
        s = ex_.ghost['chain_children']
        p0, q0 = c.env['p0'].e, c.env['q0'].t
        child_ok = z3.Implies(z3.And(p0 >= 0, p0 < z3.Length(s)), handled_term(ex_, Val.vakey(s[p0])))
        ctx_ok = z3.Implies(z3.Select(ex_.ghost['chain_ctx_dom'], q0), handled_term(ex_, Val.vakey(z3.Select(ex_.ghost['chain_ctx_map'], q0))))
        return z3.And(child_ok, ctx_ok)
    all_reaped.__doc__ = ('C12.L1: on every exit of run() terminate(timeout=1, force=True) has been invoked on the child at an arbitrary position p0 of '
                          'self.children and on the context under an arbitrary key q0 of self.contexts and, if it is still alive, SIGTERM was sent '
                          'to it; a failure for one does not skip the others')

    ex.spec_functions['terminated'] = lambda se, w: VBool(z3.Select(se.absfield('RCtx', 'terminated'), Val.vakey(w.t)))
    ex.spec_functions['term_raised'] = lambda se, w: VBool(z3.Select(se.absfield('RCtx', 'term_raised'), Val.vakey(w.t)))
    ex.spec_functions['alive'] = lambda se, w: VBool(z3.Select(se.absfield('RCtx', 'alive'), Val.vakey(w.t)))
    ex.spec_functions['killed'] = lambda se, w: VBool(z3.Select(se.ex.ghost['killed_pids'], Val.v_tup(smt.mk_list([Val.v_str(z3.IntVal(smt.str_code('<pid of>'))), Val.vakey(w.t)]))))

    def stops_only_on_request(c):
        ex_ = c.ex
        a = ex_.heap[c.env['self'].addr].attrs
        return z3.Or(ex_.ghost['terminate_requested'], a['close_on_none'].e)
    stops_only_on_request.__doc__ = 'the accept loop ends only on a terminate request or, when close_on_none is set, on a None header - never because of a client'

    opts = dict(server.OPTIONS)
    opts['chan_elem_inv'] = {f'cli#{i}': server.header_inv for i in range(4)}
    opts['child_terminate_raises'] = ['AnyException']
    opts['recv_closed_check'] = False
    return Contract(
        RS + '.run', lid='Ls', name=f'{prop}.Ls RemoteServer.run: no client failure escapes the accept loop; table transitions; client socket settled; children reaped on exit',
        params={'self': ('const', None)}, self_class=RS, setup=setup,
        ensures=['self.closed', stops_only_on_request], raises={}, raises_only=[],
        all_exits=[all_reaped, 'not lsock.open'],
        loops={0: main, 1: fin}, options=opts,
        inject=InjectCfg([RS + '.run'], budget=0, kinds=(), at_point=server.signal_safe_point))


def opt_ctx(I, nm):
    return VSym(I.ex.fresh(nm, Val), hint=('abs', 'RCtx'))


def build(ex):
    server.install(ex)
    return [(build_run_contract(ex, ex.prop), None)]


MUTANTS = [
    ('pyworkers/remote_server.py', "                        except ConnectionClosedError:\n                            logger.info('Client disconnected before child was successfully created')\n                            continue", "                        except KeyError:\n                            continue", 'worker payload receive no longer guarded'),
    ('pyworkers/remote_server.py', "                            logger.warning('Context {} already exists', ctx_id)\n                            result = False\n", "                            logger.warning('Context {} already exists', ctx_id)\n                            result = False\n                            self.contexts[ctx_id] = context\n", 'a duplicate registration replaces the first context'),
    ('pyworkers/remote_server.py', "                        current = self.contexts.pop(ctx_id, None)", "                        current = self.contexts.get(ctx_id, None)", 'delete does not remove the context from the table'),
    ('pyworkers/remote_server.py', "            for child in itertools.chain(self.children, self.contexts.values()):", "            for child in itertools.chain(self.children, []):", 'contexts are not terminated when the server stops'),
    ('pyworkers/remote_server.py', "                    if child.is_alive():\n                        os.kill(child.pid, signal.SIGTERM)\n                except:", "                    pass\n                except:", 'survivors of terminate() are not signalled'),
    ('pyworkers/remote_server.py', "                            cli.close()\n                            continue", "                            continue", 'unknown context: client socket left open'),
    ('pyworkers/remote_server.py', "                        self.children.append(child)", "                        self.children = [child]", 'a new worker makes the server forget its earlier children'),
    ('pyworkers/remote_server.py', "                    if self.close_on_none:\n", "                    if True:\n", 'any client can stop the server with a None header'),
]


def replay(ob, repo):
    from pyvc.native import run_script
    r = run_script('c11_native.py', {'name': 'all'}, repo, timeout=150)
    return bool(r.get('violates')), r


def replay_file(path, repo):
    import json
    from pyvc.native import run_script
    r = run_script('c11_native.py', {'name': 'all'}, repo, timeout=150)
    print(json.dumps(r, indent=1, default=str))
    if r.get('violates'):
        print(f'VIOLATION property=C11 replay={path}')
        return 1
    return 0
