"""C03 - graceful terminate interrupts the target wherever it is, and says so.

Injection mode (DESIGN.md 4.1): every statement boundary of the child-side run function (plus the evaluate/store split of
assignments and "inside the target") is a point where the pending WorkerTerminatedError may surface; the obligations are generated for
EACH such point.  One injection per path (quick)."""
import z3

from pyvc.values import *  # noqa
from . import common, workers, childrun
from .workers import PW, TW

ID = 'C03'
MIN_OBLIGATIONS = 40
TRUSTED = [common.TEXT['chan'], common.TEXT['target'],
           'T5 PyThreadState_SetAsyncExc: the exception surfaces in the target thread at a later byte-code boundary, at most once per call, never while blocked in C']
ASSUMPTIONS = [
    'granularity: statement boundaries, the evaluate/store split of assignments whose value is a call, and "inside the target"; opcode-level points inside one statement are not generated',
    'L1 (the exception is raised in the thread that runs the target): foreign_raise(self._ident, ...) with _ident recorded by the run function - structural, the injection happens in that function\'s own AST',
    'L3 (the child reaches exit after the landing; terminate() then returns True) rests on T4/T5 and a cooperative target; wall-clock "within the timeout" is T9',
    'remote kind: _run_backend is under injection from the point where the backend has reported its identity and got the go-ahead (a parent-initiated terminate cannot land earlier); the server-side relay of the request and the front-end thread of the parent are not under injection',
]
MUTANTS = [
    ('pyworkers/thread.py', "        except BaseException as e:\n            logger.exception('Exception occurred while running the main function')\n            self._result = (False, e)",
     "        except Exception as e:\n            logger.exception('Exception occurred while running the main function')\n            self._result = (False, e)\n        except BaseException:\n            self._result = (False, None)",
     'thread worker no longer reports BaseExceptions'),
    ('pyworkers/process.py', "            self._comms.child_end.put(((False, e), self._user_state))", "            self._comms.child_end.put(((False, None), self._user_state))", 'process worker reports None instead of the exception'),
    ('pyworkers/process.py', "            result = self.do_work()\n            self._comms.child_end.put(((True, result), self._user_state))\n        except Exception as e:",
     "            result = self.do_work()\n        except Exception as e:", None),
]
MUTANTS = [m for m in MUTANTS if m[3] is not None] + [
    ('pyworkers/remote.py', "                logger.exception('Exception occurred while running the main function')\n                result = (False, e)\n            finally:\n                if self._ctrl_thread_loc.is_alive():",
     "                logger.exception('Exception occurred while running the main function')\n            finally:\n                if self._ctrl_thread_loc.is_alive():", 'remote backend forgets the exception that ended the target (also the WorkerTerminatedError)'),
]


def build(ex):
    workers.install(ex)
    from pyvc.contracts import InjectCfg
    from .workers import RW, W
    import ast as _ast
    tl = 0
    for n in _ast.walk(ex.repo.func(RW + '._run_backend').node):
        # the statement in which the backend waits for the server's go-ahead after reporting its identity: the parent's constructor returns
        # only after that report, so a terminate requested by the parent cannot land earlier
        if isinstance(n, _ast.Assign) and 'unused_sync' in _ast.unparse(n.targets[0]) and not tl:
            tl = n.lineno

    def region(interp, st, fr):
        if fr.fi.name == '_run_backend':
            return st.lineno > tl
        return True
    remote = childrun.backend_run_contract(ex, 'L2r', 'C03', inject=InjectCfg([RW + '._run_backend', W + '.do_work', W + '.run'], budget=1, kinds=('wte',),
                                                                              region=region, split_store=True))
    return [(childrun.process_run_injected(ex, 'L2p', 'C03'), None),
            (childrun.thread_run_injected(ex, 'L2t', 'C03'), None),
            (remote, None)]


def scenario_from(ob):
    inj = (ob.get('info') or {}).get('injections') or []
    kind = 'remote' if 'L2r' in ob['lemma'] else 'process' if 'L2p' in ob['lemma'] or 'process' in ob['func'] else 'thread'
    sc = {'kind': kind, 'points': []}
    for rec in inj:
        what, func, line, text, phase = rec
        sc['points'].append({'func': func.split('.')[-1], 'text': text, 'phase': 'after' if phase == 'store' else 'before',
                             'file': {'process': 'process.py', 'remote': 'remote.py'}.get(kind, 'thread.py')})
    return sc


def replay(ob, repo):
    from pyvc.native import run_script
    sc = scenario_from(ob)
    r = run_script('c03_native.py', sc, repo, timeout=120)
    return bool(r.get('violates')), r


def replay_file(path, repo):
    import json
    from pyvc.native import run_script
    d = json.load(open(path))
    sc = (d.get('replay') or {}).get('scenario') or {'kind': 'process', 'points': []}
    r = run_script('c03_native.py', sc, repo, timeout=120)
    print(json.dumps(r, indent=1, default=str))
    if r.get('violates'):
        print(f'VIOLATION property=C03 replay={path}')
        return 1
    return 0
