"""C03 - graceful terminate interrupts the target wherever it is, and says so.

Injection mode (DESIGN.md 4.1): every statement boundary of the child-side run function (plus the evaluate/store split of
assignments and "inside the target") is a point where the pending WorkerTerminatedError may surface; the obligations are generated for
EACH such point.  One injection per path (quick)."""
import z3

from pyvc.values import *  # noqa
from . import common, workers, childrun
from .workers import PW, TW

ID = 'C03'
MIN_OBLIGATIONS = 40
TRUSTED = [common.TEXT['chan'], common.TEXT['target'],
           'T5 PyThreadState_SetAsyncExc: the exception surfaces in the target thread at a later byte-code boundary, at most once per call, never while blocked in C']
ASSUMPTIONS = [
    'granularity: statement boundaries, the evaluate/store split of assignments whose value is a call, and "inside the target"; opcode-level points inside one statement are not generated',
    'L1 (the exception is raised in the thread that runs the target, and it is a WorkerTerminatedError) is the relay lemmas L1-thread (ThreadWorker.terminate), L1-process (the child\'s control thread ProcessWorker._ctrl_fn), L1-remote (the backend\'s RemoteWorker._ctrl_fn_local) and L1-relay (the server-side control loop answers every request with the result of the local method it names, called with the arguments sent): each raises exactly once, in the thread whose ident the run function recorded in self._ident; that the run function records the ident of its own thread is structural (threading.get_ident() is evaluated in it)',
    'L3 (the child reaches exit after the landing; terminate() then returns True) rests on T4/T5 and a cooperative target; wall-clock "within the timeout" is T9',
    'remote kind: _run_backend is under injection from the point where the backend has reported its identity and got the go-ahead (a parent-initiated terminate cannot land earlier); the relay functions and the front-end thread of the parent are verified as they stand, not under injection (nothing raises asynchronously into them)',
]
MUTANTS = [
    ('pyworkers/thread.py', "        except BaseException as e:\n            logger.exception('Exception occurred while running the main function')\n            self._result = (False, e)",
     "        except Exception as e:\n            logger.exception('Exception occurred while running the main function')\n            self._result = (False, e)\n        except BaseException:\n            self._result = (False, None)",
     'thread worker no longer reports BaseExceptions'),
    ('pyworkers/process.py', "            self._comms.child_end.put(((False, e), self._user_state))", "            self._comms.child_end.put(((False, None), self._user_state))", 'process worker reports None instead of the exception'),
    ('pyworkers/process.py', "            result = self.do_work()\n            self._comms.child_end.put(((True, result), self._user_state))\n        except Exception as e:",
     "            result = self.do_work()\n        except Exception as e:", None),
]
MUTANTS = [m for m in MUTANTS if m[3] is not None] + [
    ('pyworkers/thread.py', "        foreign_raise(self._ident, WorkerTerminatedError)\n        self._release_child()", "        foreign_raise(self._tid, WorkerTerminatedError)\n        self._release_child()", 'thread terminate raises in the wrong thread (native id instead of ident)'),
    ('pyworkers/process.py', "        self._terminate_req = True\n        foreign_raise(self._ident, WorkerTerminatedError)", "        self._terminate_req = True\n        foreign_raise(self._ident, KeyboardInterrupt)", 'process control thread raises KeyboardInterrupt instead of WorkerTerminatedError'),
    ('pyworkers/remote.py', "                foreign_raise(self._ident, WorkerTerminatedError)\n                self._release_self()\n            else:", "                self._release_self()\n            else:", 'backend control thread forgets to raise'),
    ('pyworkers/remote.py', "                    result = self.wait(*args)", "                    result = self.wait()", 'server-side control loop drops the timeout of a wait request'),
    ('pyworkers/remote.py', "                    result = self.terminate(*args)", "                    result = self.wait(*args)", 'server-side control loop answers a terminate request with wait'),
    ('pyworkers/remote.py', "                logger.exception('Exception occurred while running the main function')\n                result = (False, e)\n            finally:\n                if self._ctrl_thread_loc.is_alive():",
     "                logger.exception('Exception occurred while running the main function')\n            finally:\n                if self._ctrl_thread_loc.is_alive():", 'remote backend forgets the exception that ended the target (also the WorkerTerminatedError)'),
]


def build(ex):
    workers.install(ex)
    from pyvc.contracts import InjectCfg
    from .workers import RW, W
    # A terminate requested by the parent cannot land before the backend has reported its identity and received the server's go-ahead (the parent's
    # constructor returns only after that report).  The region is defined by what has HAPPENED on the path - the backend has received a message on
    # its end of the comms pipe - not by a line number, so that it follows the handshake when it is moved into a helper.
    def region(interp, st, fr):
        return bool(interp.ex.ghost.get('__go_ahead__'))
    remote = childrun.backend_run_contract(ex, 'L2r', 'C03', inject=InjectCfg([RW + '._run_backend', W + '.do_work', W + '.run'], budget=1, kinds=('wte',),
                                                                              region=region, split_store=True))
    _setup0 = remote.setup

    def _setup(ex_, env):
        _setup0(ex_, env)
        ex_.ghost['__go_ahead__'] = False
        ac = ex_.abs_classes['Conn']
        if not getattr(ac, '_go_ahead_wrapped', False):
            orig = ac.methods['recv']

            def recv(ex2, a, k):
                r = orig(ex2, a, k)
                if common.chan_tag(ex2, a[0]) == 'comms.child':
                    ex2.ghost['__go_ahead__'] = True
                return r
            ac.methods['recv'] = recv
            ac._go_ahead_wrapped = True
    remote.setup = _setup
    return [(childrun.process_run_injected(ex, 'L2p', 'C03'), None),
            (childrun.thread_run_injected(ex, 'L2t', 'C03'), None),
            (remote, None)] + relay_lemmas(ex) + persistent_loop_lemmas(ex)


def persistent_loop_lemmas(ex):
    """L2d: the run functions above call do_work() - for the persistent kinds that is the loop that serves the inputs, with its own bookkeeping (_send_result).
    A graceful terminate landing at ANY statement boundary of that loop or of _send_result must leave do_work as the WorkerTerminatedError it is: if some handler
    in there swallows it, the worker carries on and ends with a normal outcome (the run function's contract above takes do_work as 'raises what lands in it')."""
    from pyvc.contracts import InjectCfg
    from . import persistent
    persistent.spec_functions(ex)
    out = []

    def terminate_not_swallowed(c):
        ex_ = c.ex
        if not any(i[0] == 'wte' for i in ex_.ghost.get('__injections__', [])):
            return z3.BoolVal(True)
        exc = c.env.get('raised')
        return z3.BoolVal(isinstance(exc, VExc) and str(exc.cls).split('.')[-1] == 'WorkerTerminatedError')
    terminate_not_swallowed.__doc__ = ('a graceful terminate that landed inside the loop leaves do_work as a WorkerTerminatedError - it is never swallowed by a handler of the '
                                       'loop\'s own bookkeeping (the worker would carry on and end with a normal outcome)')
    for kind in ('thread', 'process', 'remote'):
        cls = persistent.KINDS[kind]
        con = persistent.do_work_contract(ex, kind, f'L2d-{kind}', 'LocalPipe' if kind == 'thread' else 'Pipe', 'list')
        con.name = f'C03.L2d-{kind} a graceful terminate landing anywhere in the persistent loop (do_work / _send_result) leaves it as WorkerTerminatedError'
        con.inject = InjectCfg([cls + '.do_work', cls + '._send_result'], budget=1, kinds=('wte',), split_store=True)
        con.ensures = []
        con.all_exits = [terminate_not_swallowed]
        con.on_vanish = []
        out.append((con, None))
    return out


def relay_lemmas(ex):
    """L1: how the request reaches the thread that runs the target"""
    from pyvc import smt
    from pyvc.smt import Val, ValList, SeqVal
    from pyvc.contracts import Contract, Loop
    from pyvc.core import PyRaise, PathEnd
    from .workers import RW, W
    repo = ex.repo
    out = []

    def raise_hook(ex_):
        ex_.ghost['raised'] = []

        def hook(i2, fi, a, k, n, s):
            ex_.ghost['raised'] = ex_.ghost['raised'] + [(a[0], a[1])]
            return NONE
        return hook

    def one_wte_in_ident(c):
        ex_ = c.ex
        r = ex_.ghost['raised']
        if len(r) != 1:
            return z3.BoolVal(False)
        ident, exc = r[0]
        a0 = ex_.old['heap'][c.env['self'].addr].attrs
        ok_exc = isinstance(exc, VExcClass) and exc.name.split('.')[-1] == 'WorkerTerminatedError'
        return z3.And(z3.BoolVal(ok_exc), lower(ident, ex_) == lower(a0['_ident'], ex_))

    def none_raised(c):
        return z3.BoolVal(len(c.ex.ghost['raised']) == 0)

    # ---- thread kind: the parent raises directly
    def thread_setup(ex_, env):
        I = ex_.interp
        child = VAbs('Proc', Val.v_str(z3.IntVal(smt.str_code('<child thread>'))))
        ex_.abs_classes['Proc'].set(ex_, child, 'alive', ex_.fresh('alive0', smt.Bool))
        cur_tid = ex_.ext_models['threading.get_native_id'](ex_, [], {})
        ctid = I.sym('child_tid')
        ex_.assume(ctid.t != cur_tid.t)
        attrs = {'_started': VBool(True), '_dead': I.sym('dead0', 'bool'), '_child': child, '_tid': ctid, '_ident': I.sym('child_ident'), '_result': I.sym('result0')}
        env['self'] = ex_.alloc(HObj(repo.cls(TW), attrs))
        t = ex_.fresh('timeout', smt.Real)
        ex_.assume(t >= 0)
        env['timeout'] = VReal(t)
        env['force'] = VBool(False)
        ex_.ghost['released_early'] = False

        def release_hook(i2, fi, a, k, n, s):
            # _release_child() is the overridable hook that wakes a child waiting for input (persistent kinds put the end marker None): a woken child may
            # finish ON ITS OWN before anything else happens in this thread
            if len(ex_.ghost['raised']) == 0:
                ex_.ghost['released_early'] = True
            return NONE
        ex_.ghost['__call_hooks__'] = {'pyworkers.utils.foreign_raise': raise_hook(ex_), W + '._release_child': release_hook}

    def raise_before_release(c):
        return z3.BoolVal(not c.ex.ghost['released_early'])
    raise_before_release.__doc__ = ('the request is raised in the child BEFORE the child is released from waiting for input (_release_child): a child woken first could read '
                                    'the end marker and finish cleanly - the request would then find no thread (ValueError from foreign_raise) and the outcome would be a '
                                    'normal one instead of WorkerTerminatedError')

    def thread_post(c):
        ex_ = c.ex
        a0 = ex_.old['heap'][c.env['self'].addr].attrs
        a1 = ex_.heap[c.env['self'].addr].attrs
        known_dead = a0['_dead'].e
        n = len(ex_.ghost['raised'])
        # is_alive() may find the thread finished: then nothing is raised either
        found_dead = z3.And(z3.Not(known_dead), a1['_dead'].e)
        return z3.And(z3.Implies(known_dead, z3.BoolVal(n == 0)), z3.Or(z3.BoolVal(n == 0), one_wte_in_ident(c)),
                      z3.Implies(z3.BoolVal(n == 0), z3.Or(known_dead, found_dead)))
    thread_post.__doc__ = ('terminate() on a live thread worker raises exactly once, a WorkerTerminatedError, in the thread whose ident the worker recorded; '
                           'on a worker known or found dead it raises nothing')
    out.append((Contract(TW + '.terminate', lid='L1-thread', name='C03.L1-thread ThreadWorker.terminate raises WorkerTerminatedError once, in the worker\'s own thread',
                         params={'self': ('const', None), 'timeout': ('const', None), 'force': ('const', None)}, self_class=TW, setup=thread_setup, returns='bool',
                         ensures=[thread_post], raises={}, raises_only=[], all_exits=[raise_before_release], options={'recv_closed_check': False}), None))

    # ---- process and remote kinds, parent side: the request is written - once, and before the child is released from waiting for input.  These are the
    # contracts of the C04 cone on ProcessWorker.terminate / RemoteWorker.terminate, restricted to the clauses about the request.
    from . import C04
    saved_hooks = dict(ex.call_hooks)
    for con, v in C04.build(ex):
        keep = {'Lt-process': ('L1-process-parent', ('request_delivered',), 'ProcessWorker.terminate writes exactly one request on the control pipe, before releasing the child'),
                'Lt-remote': ('L1-remote-parent', ('force_forwarded', 'request_sent'), 'RemoteWorker.terminate (parent side) sends the request (\'terminate\', (remote timeout, force)) to the server')}.get(con.lid)
        if keep is None:
            continue
        con.lid = keep[0]
        con.name = f'C03.{keep[0]} {keep[2]}'
        con.ensures = [e for e in con.ensures if getattr(e, '__name__', '') in keep[1]]
        out.append((con, v))
    ex.call_hooks.clear()
    ex.call_hooks.update(saved_hooks)

    # ---- process kind / remote backend: the child's control thread
    def ctrl_setup(cls, persistent_attrs=False):
        def su(ex_, env):
            I = ex_.interp
            ctrl, ends = common.make_pipe(ex_, 'ctrl', 'Pipe')
            sync = common.new_event(ex_)
            attrs = {'_is_child': VBool(True), '_set_names': VBool(False), '_ctrl_thread_sync': sync, '_ctrl_comms': ctrl, '_ident': I.sym('main_ident'),
                     '_remote_side': VBool(True), '_is_backend': VBool(True), '_terminate_req': VBool(False), '_started': VBool(True), '_stop': VBool(False),
                     '_socket': common.new_chan(ex_, 'Conn', 'sock'), '_aux_socket_ctrl': NONE}
            env['self'] = ex_.alloc(HObj(repo.cls(cls), attrs))
            env['ctrlq'] = ends['child']
            ac = ex_.abs_classes['Conn']
            ac.set(ex_, ends['child'], 'ipos', z3.IntVal(0))
            env['sig'] = VSym(ac.get(ex_, ends['child'], 'inq')[0])
            ex_.ghost['__call_hooks__'] = {'pyworkers.utils.foreign_raise': raise_hook(ex_)}
            ex_.abs_classes['Conn'].methods.setdefault('shutdown', lambda ex2, a, k: NONE)
            # what the parent side writes to the control pipe: None (finish quietly) or the string 'terminate'
            term = Val.v_str(z3.IntVal(smt.str_code('terminate')))
            ex_.ghost['chan_elem_inv'] = {'ctrl.child': lambda ex2, x, ipos: z3.Or(x == Val.v_none, x == term)}
            ex_.ghost['recv_closed_check'] = False
        return su

    def ctrl_post(c):
        sig = c.env['sig'].t
        return z3.And(z3.Implies(sig == Val.v_none, none_raised(c)), z3.Implies(sig != Val.v_none, one_wte_in_ident(c)))
    ctrl_post.__doc__ = ('a request on the control pipe makes the control thread raise exactly once, a WorkerTerminatedError, in the thread whose ident the run function '
                         'recorded (the one that runs the target); the message None ends the control thread without raising anything')
    out.append((Contract(PW + '._ctrl_fn', lid='L1-process', name='C03.L1-process the child\'s control thread raises WorkerTerminatedError once, in the thread that runs the target',
                         params={'self': ('const', None)}, self_class=PW, setup=ctrl_setup(PW), ensures=[ctrl_post], raises={'EOFError': none_raised}, raises_only=['EOFError'],
                         options={'recv_closed_check': False}), None))
    out.append((Contract(RW + '._ctrl_fn_local', lid='L1-remote', name='C03.L1-remote the backend\'s local control thread raises WorkerTerminatedError once, in the thread that runs the target',
                         params={'self': ('const', None)}, self_class=RW, setup=ctrl_setup(RW), ensures=[ctrl_post], raises={'EOFError': none_raised}, raises_only=['EOFError'],
                         options={'recv_closed_check': False}), None))

    # ---- remote kind, server side: the control loop relays every request to the local method it names
    def relay_setup(ex_, env):
        I = ex_.interp
        child = VAbs('Proc', Val.v_str(z3.IntVal(smt.str_code('<backend process>'))))
        ex_.abs_classes['Proc'].set(ex_, child, 'alive', ex_.fresh('alive0', smt.Bool))
        csock = common.new_chan(ex_, 'Conn', 'ctrlsock')
        sock = common.new_chan(ex_, 'Conn', 'sock')
        sync = common.new_event(ex_)
        attrs = {'_remote_side': VBool(True), '_is_backend': VBool(False), '_set_names': VBool(False), '_startup_sync': sync, '_ctrl_sock': csock, '_socket': sock,
                 '_child': child, '_started': VBool(True), '_dead': I.sym('dead0', 'bool')}
        env['self'] = ex_.alloc(HObj(repo.cls(RW), attrs))
        env['csock'] = csock
        env['k0'] = VInt(ex_.fresh('k0', smt.Int))
        ex_.abs_classes['Conn'].methods.setdefault('shutdown', lambda ex2, a, k: NONE)
        ex_.ghost['relay'] = z3.Empty(SeqVal)        # one entry per relayed request: (name of the local method, the arguments it got, what it returned)

        def local(name):
            def hook(i2, fi, a, k, n, s):
                args = a[1:]
                if len(args) == 1 and isinstance(args[0], VStar):
                    av = lower(args[0].v, ex_)
                else:
                    av = lower(VTuple(list(args)), ex_)
                res = ex_.fresh(name + '_result', smt.Bool)
                ex_.ghost['relay'] = z3.Concat(ex_.ghost['relay'], z3.Unit(Val.v_tup(smt.mk_list([Val.v_str(z3.IntVal(smt.str_code(name))), av, Val.v_bool(res)]))))
                return VBool(res)
            return hook
        hooks = dict(common.MSG_HOOKS)
        for nm in ('terminate', 'wait', 'is_alive'):
            hooks[RW + '.' + nm] = local(nm)
        ex_.ghost['__call_hooks__'] = hooks

        def conn_wait(ex2, a, k):
            items = ex2.interp.iter_concrete(a[0])
            d = ex2.choose(2, 'ctrl-wait')
            if d == 0:
                ex2.note('wait:request')
                return ex2.alloc(HList([x for x in items if isinstance(x, VAbs)]))
            ex2.note('wait:child-exited')
            return ex2.alloc(HList([x for x in items if not isinstance(x, VAbs)]))
        ex_.ghost['__conn_wait__'] = conn_wait

        def req_inv(ex2, x, ipos):
            lst = Val.vitems(x)
            pair = z3.And(Val.is_v_tup(x), ValList.is_vl_cons(lst), Val.is_v_str(ValList.vl_hd(lst)), ValList.is_vl_cons(ValList.vl_tl(lst)),
                          Val.is_v_tup(ValList.vl_hd(ValList.vl_tl(lst))), ValList.is_vl_nil(ValList.vl_tl(ValList.vl_tl(lst))))
            cmd = ValList.vl_hd(lst)
            # the parent side (RemoteWorker.wait / terminate / is_alive) sends only these three commands
            known = z3.Or(cmd == code('terminate'), cmd == code('wait'), cmd == code('alive'))
            return z3.Or(x == Val.v_none, z3.And(pair, known))
        ex_.ghost['chan_elem_inv'] = {'ctrlsock': req_inv}
        ex_.abs_classes['Proc'].attrs['sentinel'] = lambda I2, o: VInt(z3.Int('sentinel_of_the_backend'))
        ex_.ghost['recv_closed_check'] = False
        ex_.ghost['send_raises'] = {}

    def code(s):
        return Val.v_str(z3.IntVal(smt.str_code(s)))

    def relayed(c, at_exit=False):
        """request number k0 (arbitrary) has been answered with the result of the local method it names, called with the arguments sent"""
        ex_ = c.ex
        cc = ex_.abs_classes['Conn']
        s = c.env['csock']
        inq, ipos, out = cc.get(ex_, s, 'inq'), cc.get(ex_, s, 'ipos'), cc.get(ex_, s, 'out')
        rel = ex_.ghost['relay']
        k0 = c.env['k0'].e
        req = inq[k0]
        cmd = ValList.vl_hd(Val.vitems(req))
        args = ValList.vl_hd(ValList.vl_tl(Val.vitems(req)))
        known = z3.Or(cmd == code('terminate'), cmd == code('wait'), cmd == code('alive'))
        meth = z3.If(cmd == code('alive'), code('is_alive'), cmd)
        e = rel[k0]
        le = Val.vitems(e)
        ent_m, ent_a, ent_r = ValList.vl_hd(le), ValList.vl_hd(ValList.vl_tl(le)), ValList.vl_hd(ValList.vl_tl(ValList.vl_tl(le)))
        call_ok = z3.And(ent_m == meth, z3.Implies(cmd != code('alive'), ent_a == args), out[k0] == ent_r)
        n = z3.Length(out)
        # inside the loop every message read is a request that has been answered; at the exit one more message may have been read: the final None
        pos = (z3.Or(ipos == n, z3.And(ipos == n + 1, inq[n] == Val.v_none))) if at_exit else (ipos == n)
        return z3.And(pos, z3.Length(rel) == n, ipos >= 0, ipos <= z3.Length(inq),
                      z3.Implies(z3.And(k0 >= 0, k0 < n), z3.And(known, call_ok)))

    def relayed_at_exit(c):
        return relayed(c, at_exit=True)
    relayed_at_exit.__doc__ = 'on every exit: every request read has been answered as below; the only unanswered message is the final None'
    relayed.__doc__ = ('every request read so far has been answered, in order, and the answer to request k0 (arbitrary) is what the local method it names returned when '
                       'called with exactly the arguments that were sent (terminate -> self.terminate(*args), wait -> self.wait(*args), alive -> self.is_alive())')

    def known_cmds(ex_, env):
        # the parent side sends only these three commands (RemoteWorker.wait / terminate / is_alive): unknown commands get the string 'unknown command'
        cc = ex_.abs_classes['Conn']
        inq = cc.get(ex_, env['csock'], 'inq')
        k0 = env['k0'].e
        cmd = ValList.vl_hd(Val.vitems(inq[k0]))
        ex_.assume(z3.Implies(z3.And(k0 >= 0, k0 < z3.Length(inq), inq[k0] != Val.v_none),
                              z3.Or(cmd == code('terminate'), cmd == code('wait'), cmd == code('alive'))))

    def closed_on_exit(c):
        ex_ = c.ex
        return z3.Not(ex_.abs_classes['Conn'].get(ex_, c.env['csock'], 'open'))
    closed_on_exit.__doc__ = 'the control socket is closed on every exit of the control loop'

    def su(ex_, env):
        relay_setup(ex_, env)
    out.append((Contract(RW + '._ctrl_fn_remote', lid='L1-relay', name='C03.L1-relay the server-side control loop answers every request with the result of the local method it names',
                         params={'self': ('const', None)}, self_class=RW, setup=su, ensures=[], all_exits=[closed_on_exit, relayed_at_exit],
                         raises={'ConnectionClosedError': None}, raises_only=['ConnectionClosedError'],
                         loops={0: Loop(invariant=[relayed], modifies=['abs:Conn.ipos', 'abs:Conn.out', 'abs:Conn.open', 'ghost:relay', 'abs:Proc.alive'],
                                        locals={'ready': 'any', 'msg': 'any', 'cmd': 'any', 'args': 'any', 'result': 'any'})},
                         options={'recv_closed_check': False}), None))
    return out


def scenario_from(ob):
    inj = (ob.get('info') or {}).get('injections') or []
    kind = 'remote' if 'L2r' in ob['lemma'] else 'process' if 'L2p' in ob['lemma'] or 'process' in ob['func'] else 'thread'
    sc = {'kind': kind, 'points': []}
    for rec in inj:
        what, func, line, text, phase = rec
        sc['points'].append({'func': func.split('.')[-1], 'text': text, 'phase': 'after' if phase == 'store' else 'before',
                             'file': {'process': 'process.py', 'remote': 'remote.py'}.get(kind, 'thread.py')})
    return sc


def replay(ob, repo):
    from pyvc.native import run_script
    if 'L2d-' in ob.get('lemma', ''):
        # the persistent loop under injection: same landing points, same native scenario as C06.L6
        from . import C06
        return C06.replay(dict(ob, lemma=ob['lemma'].replace('C03.L2d-', 'C06.L6-')), repo)
    if 'L1-thread' in ob.get('lemma', ''):
        r = run_script('c03_relay_native.py', {'lemma': 'L1-thread'}, repo, timeout=120)
        return bool(r.get('violates')), r
    sc = scenario_from(ob)
    r = run_script('c03_native.py', sc, repo, timeout=120)
    return bool(r.get('violates')), r


def replay_file(path, repo):
    import json
    from pyvc.native import run_script
    d = json.load(open(path))
    sc = (d.get('replay') or {}).get('scenario') or {'kind': 'process', 'points': []}
    r = run_script('c03_native.py', sc, repo, timeout=120)
    print(json.dumps(r, indent=1, default=str))
    if r.get('violates'):
        print(f'VIOLATION property=C03 replay={path}')
        return 1
    return 0
