"""Shared builders for parent-side / child-side worker objects of the one-shot kinds (cones of C01, C02, C16, C04)."""
import z3

from pyvc import smt
from pyvc.smt import Val, ValList, SeqVal
from pyvc.values import *  # noqa
from pyvc.contracts import AbsClass
from . import common

PW = 'pyworkers.process.ProcessWorker'
TW = 'pyworkers.thread.ThreadWorker'
RW = 'pyworkers.remote.RemoteWorker'
W = 'pyworkers.worker.Worker'


def proc_class():
    """threading.Thread / multiprocessing.Process as seen by the parent (T4): is_alive is monotone after exit"""
    def is_alive(ex, a, k):
        ac = ex.abs_classes['Proc']
        al = ac.get(ex, a[0], 'alive')
        still = ex.fresh('still_alive', smt.Bool)
        now = z3.And(al, still)
        ac.set(ex, a[0], 'alive', now)
        return VBool(now)

    def join(ex, a, k):
        ac = ex.abs_classes['Proc']
        ac.set(ex, a[0], 'joins', ac.get(ex, a[0], 'joins') + 1)
        al = ac.get(ex, a[0], 'alive')
        ac.set(ex, a[0], 'alive', z3.And(al, ex.fresh('alive_after_join', smt.Bool)))
        return NONE

    def terminate(ex, a, k):
        ac = ex.abs_classes['Proc']
        ac.set(ex, a[0], 'sigterm', z3.BoolVal(True))
        return NONE

    def start(ex, a, k):
        return NONE
    return AbsClass('Proc', fields={'alive': smt.Bool, 'joins': smt.Int, 'sigterm': smt.Bool},
                    methods={'is_alive': is_alive, 'join': join, 'terminate': terminate, 'start': start},
                    attrs={'pid': lambda I, o: VSym(I.ex.fresh('child_pid', Val)), 'sentinel': lambda I, o: VInt(I.ex.fresh('sentinel', smt.Int)),      # an OS handle: an integer, never equal to a pipe object
                           'ident': lambda I, o: VSym(I.ex.fresh('child_ident', Val))},
                    text='T4 Thread/Process lifecycle: is_alive() never turns True again after it was False; join(t) returns')


def final_msg_inv(ex, x, ipos):
    """channel invariant B.1: messages after the identity are ((ok, value), user_state)"""
    lst = Val.vitems(x)
    first = ValList.vl_hd(lst)
    fl = Val.vitems(first)
    pair = z3.And(Val.is_v_tup(x), ValList.is_vl_cons(lst), ValList.is_vl_cons(ValList.vl_tl(lst)),
                  ValList.is_vl_nil(ValList.vl_tl(ValList.vl_tl(lst))))
    inner = z3.And(Val.is_v_tup(first), ValList.is_vl_cons(fl), Val.is_v_bool(ValList.vl_hd(fl)),
                   ValList.is_vl_cons(ValList.vl_tl(fl)), ValList.is_vl_nil(ValList.vl_tl(ValList.vl_tl(fl))))
    return z3.And(pair, inner)


def install(ex):
    common.install(ex)
    ex.abs_classes['Proc'] = proc_class()
    # identity of the calling thread/process: fixed ghost constants (the caller of a parent-side method)
    cur = {}

    def const(name):
        def f(ex_, a, k):
            key = '__cur_' + name
            if key not in ex_.ghost:
                ex_.ghost[key] = VSym(ex_.fresh('cur_' + name, Val))
            return ex_.ghost[key]
        return f
    def signal_signal(ex_, a, k):
        """signal.signal in the child side of a process worker: terminate(force=True) (C04.L4) escalates to Process.terminate() = SIGTERM and relies on the
        DEFAULT disposition, which the kernel applies whatever the interpreter is doing.  A Python-level handler runs only when the main thread is back in
        the bytecode loop (never, under a C call that holds the interpreter lock) and as ordinary Python code (a pending WorkerTerminatedError aborts it)."""
        from pyvc.core import Undecided
        if '__childenv__' not in ex_.ghost or ex_.ghost.get('__child_kind__') != 'process':
            raise Undecided('call of external signal.signal without a model')
        sig, handler = a[0], a[1]
        is_term = isinstance(sig, VExt) and sig.name.endswith('SIGTERM')
        maybe_term = is_term or not isinstance(sig, VExt)
        default = isinstance(handler, VExt) and handler.name.endswith('SIG_DFL')
        ex_.oblige('rely', not (maybe_term and not default),
                   'the child of a process worker leaves SIGTERM at its default disposition: terminate(force=True) relies on SIGTERM ending the child whatever the '
                   'target does (a Python-level handler does not run under a C call holding the interpreter lock, and a pending WorkerTerminatedError aborts it)',
                   ex_.ghost.get('__cur_node__'), key=('sigterm-disposition', getattr(ex_.ghost.get('__cur_node__'), 'lineno', 0)))
        return VSym(ex_.fresh('old_handler', Val))
    ex.ext_models['signal.signal'] = signal_signal
    ex.ext_models['platform.node'] = const('host')
    ex.ext_models['os.getpid'] = const('pid')
    ex.ext_models['threading.get_native_id'] = const('tid')
    ex.ext_models['threading.get_ident'] = const('ident')


def init_attrs(repo, cls):
    """names assigned to self in the __init__ of cls (set-ups follow attributes added or removed by a change of the code)"""
    import ast
    fi, _ = repo.lookup_method(repo.cls(cls), '__init__')
    out = set()
    for n in ast.walk(fi.node):
        if isinstance(n, ast.Attribute) and isinstance(n.ctx, ast.Store) and isinstance(n.value, ast.Name) and n.value.id == 'self':
            out.add(n.attr)
    return out


def ctor_attrs(repo, cls):
    """every attribute assigned to self by any __init__ along the MRO of cls: what an object is guaranteed to have once its construction
    has reached the point where the child is started (the child may be interrupted before it runs any further initialisation of its own)"""
    import ast
    from pyvc.frontend import ClassInfo
    out = set()
    for c in repo.mro(repo.cls(cls)):
        if isinstance(c, ClassInfo) and '__init__' in c.methods:
            for n in ast.walk(c.methods['__init__'].node):
                if isinstance(n, ast.Attribute) and isinstance(n.ctx, ast.Store) and isinstance(n.value, ast.Name) and n.value.id == 'self':
                    out.add(n.attr)
    return out


def process_parent(ex, env, persistent=False, cls=PW):
    """parent-side ProcessWorker that has been started"""
    I = ex.interp
    ci = ex.repo.cls(cls)
    child = VAbs('Proc', Val.v_str(z3.IntVal(smt.str_code('<child process>'))))
    comms, cends = common.make_pipe(ex, 'comms', 'Pipe')
    ctrl, ctends = common.make_pipe(ex, 'ctrl', 'Pipe')
    pid = I.sym('child_pid')
    attrs = {'_started': VBool(True), '_dead': I.sym('dead0', 'bool'), '_is_child': VBool(False), '_child': child,
             '_result': I.sym('result0'), '_user_state': I.sym('state0'), '_comms': comms, '_ctrl_comms': ctrl,
             '_host': I.sym('host'), '_pid': pid, '_tid': I.sym('child_tid'), '_ident': I.sym('child_ident'),
             '_parent_host': I.sym('phost'), '_parent_pid': I.sym('ppid'), '_parent_tid': I.sym('ptid'),
             '_target': I.sym('target'), '_args': I.sym('args'), '_kwargs': I.sym('kwargs'), '_name': I.sym('name'),
             '_userid': I.sym('userid'), '_do_run': VBool(True), '_set_names': I.sym('set_names', 'bool')}
    if '_early_msg' in init_attrs(ex.repo, PW):
        attrs['_early_msg'] = NONE       # nothing received ahead of the child's exit (set-ups that model wait() having done so override it)
    self_v = ex.alloc(HObj(ci, attrs))
    # the caller is the parent: its (host, pid, tid) differs from the child's
    cur_pid = ex.ext_models['os.getpid'](ex, [], {})
    ex.assume(cur_pid.t != pid.t)
    env.update(self=self_v, child=child, comms_parent=cends['parent'], ctrl_parent=ctends['parent'])
    return self_v
