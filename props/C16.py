"""C16 - user_state is synchronised child-to-parent at end of life, and only then."""
import z3

from pyvc import smt
from pyvc.smt import Val, ValList, SeqVal
from pyvc.values import *  # noqa
from pyvc.contracts import Contract, Loop
from . import common, workers, childrun
from .workers import PW, W

ID = 'C16'
MIN_OBLIGATIONS = 15
TRUSTED = [common.TEXT['chan'], workers.proc_class().text,
           'T4 a dead process\'s pipe ends are closed: once the child is observed dead the parent end reports EOF after the last message']
ASSUMPTIONS = [
    'channel invariant B.1 (process result pipe): every message after the identity message is ((ok, value), user_state); proved for the writer in lemma L2',
    'remote kinds: the backend writes the state as last assigned right after the outcome pair (L2r, the backend lemma of C01/C03 with its state clause) and the front-end thread stores exactly the message that follows the outcome pair, and nothing before it (L4r); "observed dead" implies that thread has exited (field hand-over, appendix B.8); persistent remote kind: the same two messages end the forwarding loop (C06.L3)',
    'thread kind shares memory with the child (documented exception in the property text)',
]


def snd(x):
    return ValList.vl_hd(ValList.vl_tl(Val.vitems(x)))


def fst(x):
    return ValList.vl_hd(Val.vitems(x))


MUTANTS = [
    ('pyworkers/remote.py', "            self._user_state = recv_msg(self._socket, comment='data: user state')\n            logger.debug('User state received')\n        logger.details('Result: {}', self._result)", "            recv_msg(self._socket, comment='data: user state')\n            logger.debug('User state received')\n        logger.details('Result: {}', self._result)", 'remote front end discards the received state'),
    ('pyworkers/worker.py', "        if not self.is_child:\n            raise RuntimeError('user_state can only be modified from within the worker')\n", "", 'parent may assign user_state'),
    ('pyworkers/process.py', "                self._result, self._user_state = self._result\n", "                self._result, _unused = self._result\n", 'state received from the child is discarded'),
    ('pyworkers/process.py', "            self._comms.child_end.put(((False, e), self._user_state))", "            self._comms.child_end.put(((False, e), None))", 'state not reported when the target raised'),
    ('pyworkers/worker.py', "'init_state': self._user_state }", "'init_state': None }", 'restart forgets the synchronised state'),
    ('pyworkers/process.py', "            self._result = self._early_msg\n", "            self._result = None\n", 'the final message wait() received ahead of the exit is dropped'),
]


def build(ex):
    workers.install(ex)

    # ---------------------------------------------------------------- L1 setter
    def setter_setup(ex_, env):
        workers.process_parent(ex_, env)
    L1 = Contract(
        W + '.user_state.setter', lid='L1', name='C16.L1 assigning user_state from the parent raises RuntimeError and changes nothing',
        params={'self': ('const', None), 'value': 'any'}, self_class=PW, setup=setter_setup,
        ensures=['False'], raises={'RuntimeError': 'self._user_state == old(self._user_state)'}, raises_only=['RuntimeError'],
        modifies=[])

    # ---------------------------------------------------------------- L3/L4 getter on the parent
    def dead_unfetched(ex_, env, prefetched=False):
        """the child has been observed dead (wait()/terminate() returned True or is_alive() False), it reported, and the
        parent has not touched result/error/has_error yet"""
        self_v = workers.process_parent(ex_, env)
        a = ex_.heap[self_v.addr].attrs
        a['_dead'] = VBool(True)
        a['_result'] = NONE
        cp = env['comms_parent']
        ac = ex_.abs_classes['Conn']
        inq = ac.get(ex_, cp, 'inq')
        ipos0 = ex_.fresh('ipos0', smt.Int)
        ac.set(ex_, cp, 'ipos', ipos0)
        ac.set(ex_, cp, 'peer_closed', z3.BoolVal(True))
        ac.set(ex_, ex_.abs_classes['Proc'] and env['child'] and cp, 'open', z3.BoolVal(True))
        ex_.abs_classes['Proc'].set(ex_, env['child'], 'alive', z3.BoolVal(False))
        env['ipos0'] = VInt(ipos0)
        env['inq'] = VSeq(inq)
        env['early'] = NONE
        if prefetched:
            # wait() already received the child's final message while waiting for its exit (ProcessWorker.wait)
            ex_.assume(z3.And(ipos0 >= 1, ipos0 <= z3.Length(inq), workers.final_msg_inv(ex_, inq[ipos0 - 1], None)))
            a['_early_msg'] = VSym(inq[ipos0 - 1])
            env['early'] = a['_early_msg']
        else:
            ex_.assume(z3.And(ipos0 >= 0, ipos0 < z3.Length(inq)))          # it reported: at least one final message

    def state_is_childs(c):
        ex_ = c.ex
        inq = c.env['inq'].e
        last = inq[z3.Length(inq) - 1]
        return lower(c.env['result'], ex_) == snd(last)
    state_is_childs.__doc__ = 'user_state == the state sent with the last final message of the child (its last assigned value, by L2)'

    drain = Loop(
        invariant=['comms_parent.ipos >= ipos0 and comms_parent.ipos <= len(inq)',
                   'implies(comms_parent.ipos == ipos0, val(self._result) == val(early))',
                   'implies(comms_parent.ipos > ipos0, val(self._result) == inq[comms_parent.ipos - 1])',
                   'implies(comms_parent.ipos > ipos0, is_final(inq[comms_parent.ipos - 1]))',
                   'self._dead'],
        variant='len(inq) - comms_parent.ipos',
        modifies=[('self._result', 'any'), 'abs:Conn.ipos'])
    ex.spec_functions['is_final'] = lambda se, x: VBool(workers.final_msg_inv(ex, x.t, None))
    # a message whose content cannot be rebuilt in the parent (e.g. an exception class whose constructor needs more than its args) is consumed and raises
    opts = {'chan_elem_inv': {'comms.parent': workers.final_msg_inv}, 'recv_closed_check': False, 'recv_raises': {'comms.parent': ['AnyException']}}
    L4 = Contract(
        W + '.user_state', lid='L4', name='C16.L4 process kind: once the worker is observed dead, user_state is the child\'s last state (no other accessor needed first)',
        params={'self': ('const', None)}, self_class=PW, setup=dead_unfetched,
        ensures=[state_is_childs], raises={}, raises_only=[],
        loops={(PW + '._get_result', 0): drain}, options=opts)

    # ---------------------------------------------------------------- L3 alive: nothing is synchronised early
    def alive_setup(ex_, env):
        self_v = workers.process_parent(ex_, env)
        a = ex_.heap[self_v.addr].attrs
        a['_dead'] = VBool(False)
        a['_result'] = NONE
        ex_.abs_classes['Proc'].set(ex_, env['child'], 'alive', z3.BoolVal(True))
        cp = env['comms_parent']
        ac = ex_.abs_classes['Conn']
        ipos0 = ex_.fresh('ipos0', smt.Int)
        ac.set(ex_, cp, 'ipos', ipos0)
        ex_.assume(z3.And(ipos0 >= 0, ipos0 <= z3.Length(ac.get(ex_, cp, 'inq'))))
        env['ipos0'] = VInt(ipos0)
        env['inq'] = VSeq(ac.get(ex_, cp, 'inq'))
        env['early'] = NONE
    L3 = Contract(
        PW + '._get_result', lid='L3', name='C16.L3 while the child is alive _get_result() returns None and changes neither result nor user_state',
        params={'self': ('const', None)}, self_class=PW, setup=alive_setup,
        ensures=['implies(child_alive_now(), is_none(result) and self._user_state == old(self._user_state) and is_none(self._result))'],
        raises={}, raises_only=[],
        loops={0: Loop(invariant=drain.invariant[:4], modifies=drain.modifies)},
        options=opts)
    ex.spec_functions['child_alive_now'] = lambda se: VBool(z3.Select(se.absfield('Proc', 'alive'), se.env['child'].key))

    # ---------------------------------------------------------------- L4b _get_result itself (dead, unfetched)
    def got_last(c):
        ex_ = c.ex
        inq = c.env['inq'].e
        last = inq[z3.Length(inq) - 1]
        h = ex_.heap[c.env['self'].addr].attrs
        return z3.And(lower(c.env['result'], ex_) == fst(last), lower(h['_user_state'], ex_) == snd(last),
                      lower(h['_result'], ex_) == fst(last))
    got_last.__doc__ = 'result pair and user_state are the two components of the LAST final message in the pipe'
    L4b = Contract(
        PW + '._get_result', lid='L4b', name='C16.L4b ProcessWorker._get_result drains the pipe after death and takes result and state from the last message',
        params={'self': ('const', None)}, self_class=PW, setup=dead_unfetched,
        ensures=[got_last], raises={}, raises_only=[], loops={0: drain}, options=opts)
    L4c = None
    if '_early_msg' in workers.init_attrs(ex.repo, PW):
        L4c = Contract(
            PW + '._get_result', lid='L4c', name='C16.L4c ProcessWorker._get_result uses the final message wait() received ahead of the child\'s exit unless a later one is in the pipe',
            params={'self': ('const', None)}, self_class=PW, setup=lambda ex_, env: dead_unfetched(ex_, env, True),
            ensures=[got_last], raises={}, raises_only=[], loops={0: drain}, options=opts)

    # ---------------------------------------------------------------- L5 restart arguments
    def ra_setup(ex_, env):
        workers.process_parent(ex_, env)
    L5 = Contract(
        W + '._get_restart_args', lid='L5', name='C16.L5/C17 restart arguments carry the synchronised user_state as init_state (and target, defaults, name, userid)',
        params={'self': ('const', None)}, self_class=PW, setup=ra_setup,
        ensures=[lambda c: restart_args_ok(c)], raises={}, raises_only=[], modifies=[])

    def restart_args_ok(c):
        ex_ = c.ex
        r = c.env['result']
        a = ex_.heap[c.env['self'].addr].attrs
        if not isinstance(r, VTuple) or len(r.items) != 2:
            return z3.BoolVal(False)
        pos, kw = r.items
        posl = ex_.heap[pos.addr].items if isinstance(pos, VRef) else None
        kwd = ex_.heap[kw.addr].items if isinstance(kw, VRef) else None
        if posl is None or kwd is None or len(posl) != 1:
            return z3.BoolVal(False)
        conds = [ex_.interp.eq(posl[0], a['_target'])]
        for key, attr in (('args', '_args'), ('kwargs', '_kwargs'), ('name', '_name'), ('userid', '_userid'), ('run', '_do_run'),
                          ('set_names', '_set_names'), ('init_state', '_user_state')):
            if key not in kwd:
                return z3.BoolVal(False)
            conds.append(ex_.interp.eq(kwd[key], a[attr]))
        conds = [cnd if isinstance(cnd, z3.ExprRef) else z3.BoolVal(bool(cnd)) for cnd in conds]
        return z3.And(*conds)
    L2 = childrun.process_run_contract(ex, 'L2')
    L2i = childrun.process_run_injected(ex, 'L2i', 'C16')

    # ---------------------------------------------------------------- remote kind
    from .workers import RW
    L2r = childrun.backend_run_contract(ex, 'L2r', 'C16')

    def fe_setup(ex_, env):
        I = ex_.interp
        sock = common.new_chan(ex_, 'Conn', 'data')
        st0 = I.sym('state0')
        attrs = {'_socket': sock, '_result': NONE, '_user_state': st0}
        env['self'] = ex_.alloc(HObj(ex_.repo.cls(RW), attrs))
        env['sock'] = sock
        env['state0'] = st0

    def state_taken(c):
        ex_ = c.ex
        cc = ex_.abs_classes['Conn']
        h = ex_.heap[c.env['self'].addr].attrs
        inq, ipos = cc.get(ex_, c.env['sock'], 'inq'), cc.get(ex_, c.env['sock'], 'ipos')
        st = lower(h['_user_state'], ex_)
        return z3.And(z3.Implies(ipos >= 2, st == inq[1]), z3.Implies(ipos < 2, st == c.env['state0'].t), ipos <= 2)
    state_taken.__doc__ = ('the parent\'s user_state is the message that follows the outcome pair on the data socket (the state the backend sent) once both have been '
                           'received, and the initial state until then')

    def state_not_left_behind(c):
        ex_ = c.ex
        cc = ex_.abs_classes['Conn']
        return cc.get(ex_, c.env['sock'], 'ipos') != 1
    state_not_left_behind.__doc__ = ('a fetch that returns normally after receiving the outcome pair has also received the state message that follows it - whatever the '
                                     'outcome pair says (the backend sends the state after every outcome it reports, L2r): no state is left unread on the socket')

    def state_untouched(c):
        ex_ = c.ex
        h = ex_.heap[c.env['self'].addr].attrs
        return lower(h['_user_state'], ex_) == c.env['state0'].t
    state_untouched.__doc__ = 'a fetch that ends with an exception (connection lost after the outcome, unreceivable state message) leaves the initial state in place'

    def pair_first(ex_, x, ipos):
        lst = Val.vitems(x)
        return z3.Implies(ipos == 0, z3.And(Val.is_v_tup(x), ValList.is_vl_cons(lst), ValList.is_vl_cons(ValList.vl_tl(lst)), ValList.is_vl_nil(ValList.vl_tl(ValList.vl_tl(lst)))))
    L4r = Contract(
        RW + '._fetch_results', lid='L4r', name='C16.L4r RemoteWorker._fetch_results takes the user_state from the message after the outcome pair, and only then',
        params={'self': ('const', None)}, self_class=RW, setup=fe_setup,
        ensures=[state_taken, state_not_left_behind], raises={'ConnectionClosedError': state_untouched, 'AnyException': state_untouched}, raises_only=['ConnectionClosedError', 'AnyException'],
        options={'__call_hooks__': dict(common.MSG_HOOKS), 'recv_closed_check': False, 'chan_elem_inv': {'data': pair_first},
                 'recv_raises': {'data': ['AnyException']}})
    return [(L1, None), (L2, None), (L2i, None), (L4, None), (L3, None), (L4b, None), (L5, None)] + ([(L4c, None)] if L4c is not None else []) + [(L2r, None), (L4r, None)] + restart_lemmas(ex)


def restart_lemmas(ex):
    """L6: the state across a restart chain.  L5 says the restart arguments carry the parent's _user_state; that this IS the child's last state when restart() builds
    them - for the process kind only after _get_result() has read the final message, on every way the old incarnation was stopped - is the state clause of the
    C17 cone's contract on the real PersistentWorker.restart, checked here for the three kinds."""
    from . import C17 as _c17
    saved_abs, saved_ext, saved_hooks = dict(ex.abs_classes), dict(ex.ext_models), dict(ex.call_hooks)
    built = _c17.build(ex)
    for k_, v_ in saved_abs.items():
        ex.abs_classes[k_] = v_
    for k_, v_ in saved_ext.items():
        ex.ext_models[k_] = v_
    ex.call_hooks.clear()
    ex.call_hooks.update(saved_hooks)
    out = []
    for con, v in built:
        if con.lid.startswith('L1-'):
            con.name = con.name.replace('C17.' + con.lid, 'C16.L6-' + con.lid[3:])
            con.lid = 'L6-' + con.lid[3:]
            con.ensures = [e for e in con.ensures if getattr(e, '__name__', '') == 'state_passed_on']
            con.all_exits = []
            out.append((con, v))
    return out


def _new(r, site=''):
    """native violations that are not the known finding F-C16-4 (process kind, final message that cannot be rebuilt in the parent) - those are witnesses
    for the obligations of the process getter lemmas only"""
    return [v for v in r.get('violations', [])
            if site.startswith(('C16/L4:', 'C16/L4b:', 'C16/L4c:')) or not (v.startswith('init_state=') and 'raise_unreceivables:' in v)]


def replay(ob, repo):
    from pyvc.native import run_script
    if 'C16.L6-' in ob.get('lemma', ''):
        r = run_script('c17_native.py', {'kinds': []}, repo, timeout=200)       # the state-across-restart scenarios (and the falsy-option ones) only
        return bool(r.get('violates')), r
    r = run_script('c16_native.py', {'lemma': ob['lemma']}, repo, timeout=200)
    r['violations_not_in_known_findings'] = _new(r, ob.get('site', ''))
    return bool(r['violations_not_in_known_findings']), r


def replay_file(path, repo):
    import json
    from pyvc.native import run_script
    r = run_script('c16_native.py', {}, repo, timeout=200)
    print(json.dumps(r, indent=1, default=str))
    if _new(r):
        print(f'VIOLATION property=C16 replay={path}')
        return 1
    return 0
