"""C08 - Pool failure reports are sound.  Same cone as C07 (Pool.run and its closures); the clauses specific to C08:
  L3  PoolError.partial_results / the return value hold only genuine results, at most one per input
      (all-exits clause `partial_genuine`, invariants `pairing` and `E >= 0`)
  L4  retry off: an input is dropped only when the worker it was being handed to died: obligation `drop` at every call of
      handle_unused_data, and try_enqueue's precondition `worker.id not in _closed` at every call site
  L1/L2 (PoolError only when every worker is closed) need the progress invariant J of DESIGN.md (idle live worker ==> nothing
      left to hand out); it is NOT proved in this round - see ASSUMPTIONS."""
from . import C07 as _c07
from . import pool, common

ID = 'C08'
MIN_OBLIGATIONS = 50
TRUSTED = _c07.TRUSTED
ASSUMPTIONS = _c07.ASSUMPTIONS + [
    'C08.L1/L2 ("PoolError only if every worker has died or been closed") is not decided by this check: it needs the inductive progress invariant J (DESIGN.md, C08) which was not completed; on the unchanged tree the clause is known to fail for a refusing enqueue_fn (design probe P-15)',
    'a user enqueue_fn that refuses an input while retry is off drops that input by the user\'s own choice; L4 treats it as handed',
]
MUTANTS = _c07.MUTANTS + [
    ('pyworkers/pool.py', "                        if worker.id not in self._closed:\n                            more_data = try_enqueue(worker)", "                        if True:\n                            more_data = try_enqueue(worker)", 'first_enqueue hands inputs to workers already closed (dropped silently when retry is off)'),
    ('pyworkers/pool.py', "            raise PoolError('Pool failed to process the whole input - all workers have died', partial_results=(ret if return_results else None))", "            raise PoolError('Pool failed to process the whole input - all workers have died', partial_results=(ret + self._retries if return_results else None))", 'partial results padded with unprocessed inputs'),
]
build = _c07.build
replay = _c07.replay


def replay_file(path, repo):
    import json
    from pyvc.native import run_script
    d = json.load(open(path))
    sc = (d.get('replay') or {}).get('scenario') or {}
    r = run_script('c07_native.py', sc, repo, timeout=120)
    print(json.dumps(r, indent=1, default=str))
    if r.get('violates'):
        print(f'VIOLATION property=C08 replay={path}')
        return 1
    return 0
