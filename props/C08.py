"""C08 - Pool failure reports are sound.  Same cone as C07 (Pool.run and its closures); the clauses specific to C08:
  L3  PoolError.partial_results / the return value hold only genuine results, at most one per input
      (all-exits clause `partial_genuine`, invariants `pairing` and `E >= 0`)
  L4  retry off: an input is dropped only when the worker it was being handed to died: obligation `drop` at every call of
      handle_unused_data, and try_enqueue's precondition `worker.id not in _closed` at every call site
  L1/L2 PoolError only when every worker is closed: the progress invariant J (a live worker with nothing pending exists only if
      nothing is left to hand out, or the user enqueue function refused) is carried through every closure (preserves_J / own_J /
      J_all) and the main loop; PoolError's condition follows from J at loop exit.  Under a refusing enqueue_fn the strict clause
      does not hold: known finding F-C08-2."""
from . import C07 as _c07
from . import pool, common

ID = 'C08'
MIN_OBLIGATIONS = 50
TRUSTED = _c07.TRUSTED
ASSUMPTIONS = _c07.ASSUMPTIONS + [
    'T1 (sum abstraction): each pending list is at most as long as the sum of all of them (instantiated for the arbitrary worker w0 at the PoolError site)',
    'a user enqueue_fn that refuses an input while retry is off drops that input by the user\'s own choice; L4 treats it as handed',
]
MUTANTS = _c07.MUTANTS + [
    ('pyworkers/pool.py', "                        if worker.id not in self._closed:\n                            more_data = try_enqueue(worker)", "                        if True:\n                            more_data = try_enqueue(worker)", 'first_enqueue hands inputs to workers already closed (dropped silently when retry is off)'),
    ('pyworkers/pool.py', "                while self._retries:\n                    idle = get_next_idle_worker()", "                while False:\n                    idle = get_next_idle_worker()", 'inputs of a dead worker are not re-dispatched to idle workers: PoolError while workers are alive and idle'),
    ('pyworkers/pool.py', "                if worker.id not in self._closed: # this is very unlikely to be False, but hypothetically can happen with a custom results_callback etc.\n                    logger.debug('Trying to enqueue new data for {}', worker)\n                    try_enqueue(worker)", "                if False:\n                    try_enqueue(worker)", 'a worker that delivered a result is not refilled'),
    ('pyworkers/pool.py', "                            more_data = try_enqueue(worker)\n                            if not more_data:\n                                return", "                            more_data = try_enqueue(worker)\n                            return", 'first_enqueue stops after the first worker'),
    ('pyworkers/pool.py', "            raise PoolError('Pool failed to process the whole input - all workers have died', partial_results=(ret if return_results else None))", "            raise PoolError('Pool failed to process the whole input - all workers have died', partial_results=(ret + self._retries if return_results else None))", 'partial results padded with unprocessed inputs'),
]


def build(ex):
    return _c07.build(ex, strict_poolerror=True)


replay = _c07.replay


def replay_file(path, repo):
    import json
    from pyvc.native import run_script
    d = json.load(open(path))
    sc = (d.get('replay') or {}).get('scenario') or {}
    r = run_script('c07_native.py', sc, repo, timeout=120)
    print(json.dumps(r, indent=1, default=str))
    if r.get('violates'):
        print(f'VIOLATION property=C08 replay={path}')
        return 1
    return 0
