"""C13 - remote_pickle is invisible to code that does not opt in.

By T6 a pickle.Pickler subclass that overrides nothing but __init__ differs from the standard pickler only through the
dispatch table it installs, and a pickler whose dispatch_table attribute is set consults ONLY that table instead of
copyreg.dispatch_table.  So "for any graph of non-opt-in classes the result equals standard pickle's" reduces to a
statement about one map, for all keys (types are an uninterpreted sort with the predicates is_type / optin).
"""
import ast
import pickle
import z3

from pyvc import smt, extlib
from pyvc.smt import Val, SeqVal
from pyvc.values import *  # noqa
from pyvc.contracts import Contract, Loop
from pyvc.core import Undecided

ID = 'C13'
MIN_OBLIGATIONS = 12
RP = 'pyworkers._remote_pickle.remote_pickler_3_6.RemotePickler36'
DT = 'pyworkers._remote_pickle.remote_pickler_3_6.dyn_dispatch_table'
SRGS = 'pyworkers.remote_pickle.SupportRemoteGetState'
META = 'pyworkers.remote_pickle.SupportRemoteGetStateMeta'
optin = z3.Function('optin', Val, smt.Bool)          # issubclass(T, SupportRemoteGetState)

TRUSTED = [
    'T6 a pickle.Pickler whose dispatch_table attribute is set consults only that table in place of copyreg.dispatch_table; '
    'the C pickler looks a non-exact-dict table up with __getitem__ (KeyError = no entry); reduction via the table entry of '
    'type(obj) precedes __reduce_ex__; a Pickler subclass overriding only __init__ behaves otherwise as pickle.Pickler',
    'reflection (type.__mro__, type.__dict__.get, inspect.signature(...).parameters) is modelled by uninterpreted predicates over type objects: which classes define which hooks is arbitrary, what the metaclass concludes from them is verified (L3)',
]
ASSUMPTIONS = [
    'L3 verifies __check_type_cached; that issubclass(T, SupportRemoteGetState) is answered by it (__subclasscheck__) and that every class created with the metaclass is checked once (__init__) are two-line delegations, read, not verified; the dispatch-table lemmas use the predicate optin(T) for its answer',
    'L4 (remote_loads with no patches performs plain pickle.loads inside a RemoteState.context) is covered by C15.L3/L4',
    'the reduction of the property to the dispatch-table map is the pen-and-paper step stated in the module docstring',
]
ABSTRACTED = ['pickle.Pickler.__init__: no-op (external)']

MUTANTS = [
    ('pyworkers/remote_pickle.py', "                    has_remote = True\n                elif inspect.Parameter.VAR_KEYWORD in param_kinds:", "                    has_remote = True\n                    break\n                elif inspect.Parameter.VAR_KEYWORD in param_kinds:", 'the MRO walk stops at the first remote-aware __getstate__ (a reduce hook further up no longer wins)'),
    ('pyworkers/remote_pickle.py', "                    if not allow_remote:\n", "                    if False:\n", 'inconsistent chains are no longer rejected'),
    ('pyworkers/remote_pickle.py', "        if has_remote:\n            assert t not in cls.supported_classes\n            cls.supported_classes.append(t)\n", "        assert t not in cls.supported_classes\n        cls.supported_classes.append(t)\n", 'every checked type is registered as opt-in'),
    (RP.replace('.RemotePickler36', '').replace('.', '/') + '.py', "            self.dispatch_table[cls] = self.remote_reduce\n", "            self.dispatch_table[cls] = self.remote_reduce\n            self.dispatch_table[int] = self.remote_reduce\n", 'a non-opt-in type is routed to remote_reduce'),
    (RP.replace('.RemotePickler36', '').replace('.', '/') + '.py', "                if issubclass(key, SupportRemoteGetState):\n                    return self.method\n", "                return self.method\n", 'every type missing from the table is treated as opt-in'),
    (RP.replace('.RemotePickler36', '').replace('.', '/') + '.py', "        if key not in self:\n", "        if key in self:\n", 'dynamic lookup inverted'),
    (RP.replace('.RemotePickler36', '').replace('.', '/') + '.py', "        self._remote = remote\n", "        self._remote = True\n", 'remote flag ignored'),
]


def build(ex):
    extlib.install_common(ex)
    repo = ex.repo
    def pickler_init(ex_, a, k):
        ex_.ghost['pickler_init'] = ex_.ghost.get('pickler_init', []) + [(list(a), dict(k))]
        return NONE
    ex.ext_models['pickle.Pickler.__init__'] = pickler_init
    is_type = z3.Function('is_type', Val, smt.Bool)

    def issubclass_hook(ex_, c, t):
        if isinstance(t, VClass) and t.ci.qualname == SRGS and isinstance(c, VSym):
            return VBool(optin(c.t))
        raise Undecided(f'issubclass({c!r}, {t!r})')

    def common_setup(ex_, env):
        ex_.ghost['__issubclass__'] = issubclass_hook
        ex_.ghost['__istype_pred__'] = is_type
        ex_.ghost['__dict_subclass_symbolic__'] = True
        ex_.ghost['keyerror_forks'] = True
        cr = ex_.alloc(HSymDict(ex_.fresh('copyreg_dom', z3.ArraySort(Val, smt.Bool)), ex_.fresh('copyreg_map', z3.ArraySort(Val, Val))))
        ex_.ghost['__extconst__'] = {'copyreg.dispatch_table': cr}
        env['CR'] = cr
        T0 = ex_.fresh('T0', Val)
        env['T0'] = VSym(T0)
        sup = ex_.alloc(HSymList(ex_.fresh('supported_classes', SeqVal)))
        hs = ex_.heap[sup.addr]
        hs.elem_fact = lambda ex2, term: ex2.assume(z3.And(optin(term), is_type(term)))
        ex_.class_attrs[(META, 'supported_classes')] = sup
        env['supported'] = sup

    # ------------------------------------------------------------ L1a: the table installed by __init__
    def table_of(c):
        ex_ = c.ex
        h = ex_.heap[c.env['self'].addr]
        tv = h.attrs['dispatch_table']
        th = ex_.heap[tv.addr]
        if isinstance(th, HObj):
            th = ex_.heap[th.attrs['__dictdata__'].addr]
        return th

    def agrees_with_copyreg(c):
        ex_ = c.ex
        th = table_of(c)
        cr = ex_.heap[c.env['CR'].addr]
        T0 = c.env['T0'].t
        same = z3.And(z3.Select(th.dom, T0) == z3.Select(cr.dom, T0),
                      z3.Implies(z3.Select(cr.dom, T0), z3.Select(th.map, T0) == z3.Select(cr.map, T0)))
        return z3.Implies(z3.Not(optin(T0)), same)
    agrees_with_copyreg.__doc__ = ('for an arbitrary type T0 that does not opt in: the pickler\'s table has an entry for T0 exactly when '
                                   'copyreg.dispatch_table has one, and it is the same reducer')

    def init_contract(remote):
        def setup(ex_, env):
            common_setup(ex_, env)
            env['self'] = ex_.alloc(HObj(repo.cls(RP), {}))
            env['file'], env['proto'] = ex_.interp.sym('file'), ex_.interp.sym('protocol')
            env['args'] = VTuple([env['file'], env['proto']])
            env['kwargs'] = ex_.alloc(HDict({}))
            env['remote'] = VBool(remote)
            ex_.ghost['pickler_init'] = []
        tag = 'remote' if remote else 'local'
        def table_loc(ex_, fr, env):
            tv = ex_.heap[env['self'].addr].attrs['dispatch_table']
            th = ex_.heap[tv.addr]
            if isinstance(th, HObj):
                return ('obj', th.attrs['__dictdata__'].addr)
            return ('obj', tv.addr)
        mods = [table_loc]

        def base_gets_all(c):
            ex_ = c.ex
            rec = ex_.ghost['pickler_init']
            if len(rec) != 1:
                return z3.BoolVal(False)
            a, k = rec[0]
            flat = []
            for x in a[1:]:
                if isinstance(x, VStar):
                    items = ex_.interp.iter_concrete(x.v)
                    if items is None:
                        return z3.BoolVal(False)
                    flat += list(items)
                else:
                    flat.append(x)
            if len(flat) != 2 or any(key not in ('**',) for key in k):
                return z3.BoolVal(False)
            conds = [ex_.interp.eq(flat[0], c.env['file']), ex_.interp.eq(flat[1], c.env['proto'])]
            return z3.And(*[x if isinstance(x, z3.ExprRef) else z3.BoolVal(bool(x)) for x in conds])
        base_gets_all.__doc__ = 'pickle.Pickler.__init__ is called once, with exactly the positional arguments given (file, protocol) and no option added'
        return Contract(
            RP + '.__init__', lid=f'L1a-{tag}',
            name=f'C13.L1a-{tag} RemotePickler(remote={remote}): the installed dispatch table agrees with copyreg.dispatch_table on every non-opt-in type',
            params={'self': ('const', None), 'args': ('const', None), 'remote': ('const', None), 'kwargs': ('const', None)},
            self_class=RP, setup=setup,
            ensures=[agrees_with_copyreg, 'self._remote == remote', base_gets_all],
            raises={}, raises_only=[],
            loops={0: Loop(invariant=[agrees_with_copyreg], modifies=mods, variant='__n__ - __i__')},
            options={'__attr_kinds__': {'dispatch_table': 'symdict'}})

    # ------------------------------------------------------------ L1b / L2: dynamic lookup
    def getitem_setup(ex_, env):
        common_setup(ex_, env)
        d = ex_.alloc(HSymDict(ex_.fresh('tbl_dom', z3.ArraySort(Val, smt.Bool)), ex_.fresh('tbl_map', z3.ArraySort(Val, Val))))
        m = ex_.interp.sym('method')
        env['self'] = ex_.alloc(HObj(repo.cls(DT), {'__dictdata__': d, 'method': m}))
        env['D'] = d
        env['m'] = m

    def getitem_result(c):
        ex_ = c.ex
        d = ex_.heap[c.env['D'].addr]
        k = c.env['key'].t
        r = lower(c.env['result'], ex_)
        return z3.Or(z3.And(z3.Select(d.dom, k), r == z3.Select(d.map, k)),
                     z3.And(z3.Not(z3.Select(d.dom, k)), is_type(k), optin(k), r == c.env['m'].t))
    getitem_result.__doc__ = 'returns the stored reducer if there is one, else the remote reducer exactly for opt-in types'

    def keyerror_only_for_unknown(c):
        ex_ = c.ex
        d = ex_.heap[c.env['D'].addr]
        k = c.env['key'].t
        return z3.And(z3.Not(z3.Select(d.dom, k)), z3.Not(z3.And(is_type(k), optin(k))))
    keyerror_only_for_unknown.__doc__ = 'KeyError only for a key without entry that is not an opt-in type (as a plain dict would)'

    L1b = Contract(
        DT + '.__getitem__', lid='L1b', name='C13.L1b/L2 dyn_dispatch_table lookup: plain dict lookup except that opt-in types get the remote reducer',
        params={'self': ('const', None), 'key': 'any'}, self_class=DT, setup=getitem_setup,
        ensures=[getitem_result], raises={'KeyError': keyerror_only_for_unknown}, raises_only=['KeyError'])

    # ------------------------------------------------------------ structural obligation
    def struct_setup(ex_, env):
        common_setup(ex_, env)
        ci = repo.cls(RP)
        own = set(ci.methods) | set(ci.attrs)
        pick = set(dir(pickle.Pickler)) | {'save', 'reducer_override', 'persistent_id', 'dump', 'memoize', 'clear_memo', 'dispatch'}
        overridden = sorted((own & pick) - {'__init__'})
        env['n_overridden'] = VInt(len(overridden))
        ex_.note('overridden:' + ','.join(overridden))
        env['obj'] = ex_.interp.sym('obj')
        ex_.ghost['__typeof__'] = lambda ex2, v: VSym(ex2.fresh('type_of_obj', Val))
    Ls = Contract(
        RP + '.subject_to_custom_reduce', lid='Ls',
        name='C13.Ls RemotePickler36 overrides no pickle.Pickler attribute other than __init__ (structural, re-read from the class body each run)',
        params={'obj': ('const', None)}, self_class=RP, setup=struct_setup,
        ensures=['n_overridden == 0'], raises={}, raises_only=[])
    return [(init_contract(True), None), (init_contract(False), None), (L1b, None), (Ls, None)] + optin_lemmas(ex) + entry_lemmas(ex)


def entry_lemmas(ex):
    """L4: the module-level entry points dump / dumps build their pickler from exactly what the caller passed - file, protocol (0 is a protocol like any other),
    remote flag, further options - and hand it the object; nothing is dropped or defaulted on the way (pickle.dumps(obj, protocol) is the reference)"""
    out = []
    MOD = 'pyworkers.remote_pickle'

    def setup(with_file):
        def su(ex_, env):
            I = ex_.interp
            ex_.ghost['made'] = []
            ex_.ghost['dumped'] = []

            def init_hook(i2, fi, a, k, n, s):
                ex_.ghost['made'] = ex_.ghost['made'] + [(list(a), dict(k))]
                return NONE
            ex_.ghost['__call_hooks__'] = {RP + '.__init__': init_hook}

            def dump_model(ex2, a, k):
                ex2.ghost['dumped'] = ex2.ghost['dumped'] + [list(a)]
                return NONE
            ex_.ext_models['pickle.Pickler.dump'] = dump_model
            ex_.ext_models['pickle._Pickler.dump'] = dump_model
            from pyvc.contracts import AbsClass
            ex_.abs_classes['BytesIO'] = AbsClass('BytesIO', fields={}, methods={'getvalue': lambda ex2, a, k: VSym(ex2.fresh('stream', Val))},
                                                  text='io.BytesIO: an in-memory file; getvalue() returns what was written to it')
            ex_.ext_models['io.BytesIO'] = lambda ex2, a, k: VAbs('BytesIO', Val.v_str(z3.IntVal(smt.str_code('<buffer>'))))
            env['obj'] = I.sym('obj')
            env['protocol'] = I.sym('protocol')
            env['remote'] = I.sym('remote', 'bool')
            env['kwargs'] = ex_.alloc(HDict({}))
            if with_file:
                env['file'] = I.sym('file')
        return su

    def built_as_asked(c):
        ex_ = c.ex
        made, dumped = ex_.ghost['made'], ex_.ghost['dumped']
        if len(made) != 1 or len(dumped) != 1:
            return z3.BoolVal(False)
        a, k = made[0]
        pos = [x for x in a[1:]]
        flat = []
        for x in pos:
            if isinstance(x, VStar):
                items = ex_.interp.iter_concrete(x.v)
                if items is None:
                    return z3.BoolVal(False)
                flat += list(items)
            else:
                flat.append(x)
        k = dict(k)
        for key in list(k):
            if key == '**':
                d = ex_.heap[k.pop(key).addr]
                k.update(getattr(d, 'items', {}))
        # pickle.Pickler(file, protocol=None, ...): protocol is the second positional argument or the keyword
        proto = flat[1] if len(flat) > 1 else k.get('protocol', NONE)
        conds = [ex_.interp.eq(proto, c.env['protocol']), ex_.interp.eq(k.get('remote', VBool(True)), c.env['remote'])]
        if 'file' in c.env:
            conds.append(ex_.interp.eq(flat[0], c.env['file']) if flat else False)
        d = dumped[0]
        conds.append(ex_.interp.eq(d[-1], c.env['obj']) if d else False)
        conds = [x if isinstance(x, z3.ExprRef) else z3.BoolVal(bool(x)) for x in conds]
        return z3.And(*conds)
    built_as_asked.__doc__ = ('exactly one pickler is built, with the protocol the caller passed (whatever it is: None, 0, ... - as pickle.dumps(obj, protocol) would), '
                              'the remote flag the caller passed and, for dump, the caller\'s file; exactly the caller\'s object is dumped with it, once')
    for fn, with_file in (('remote_dump', True), ('remote_dumps', False)):
        params = {'obj': ('const', None), 'protocol': ('const', None), 'remote': ('const', None), 'kwargs': ('const', None)}
        if with_file:
            params['file'] = ('const', None)
        out.append((Contract(f'{MOD}.{fn}', lid=f'L4-{fn}', name=f'C13.L4-{fn} {fn} builds its pickler from exactly the protocol / remote flag' + (' / file' if with_file else '') + ' it was given',
                             params=params, setup=setup(with_file), ensures=[built_as_asked], raises={}, raises_only=[]), None))
    return out


def optin_lemmas(ex):
    """L3: what "opting in" means - SupportRemoteGetStateMeta.__check_type_cached walks t.__mro__[:-1] (everything but object).

    Reflection is modelled by uninterpreted predicates over type objects:  red(b) (b's own __dict__ defines __reduce_ex__ or __reduce__),
    gs(b) (defines __getstate__), rp(b) (that __getstate__ has a parameter named remote), vk(b) (it has a **kwargs parameter).
    remote(b) := gs(b) and rp(b);   plain(b) := gs(b) and not rp(b) and not vk(b)   (a __getstate__ that cannot take the flag).
    Specification (from the property text), for the MRO prefix P = t.__mro__[:-1]:
      result  ==  no class in P defines a reduce hook  and  some class in P is remote;
      Warning is raised only when a remote class is preceded by a plain one, and a normal return means no such pair exists before the point
      where the walk stopped;  the type is registered in supported_classes iff the result is True;  the answer is cached."""
    from pyvc.contracts import AbsClass
    from pyvc.smt import ValList
    repo = ex.repo
    CHK = META + '.__check_type_cached'
    red_ex = z3.Function('defines_reduce_ex', Val, smt.Bool)
    red_ = z3.Function('defines_reduce', Val, smt.Bool)
    gs = z3.Function('defines_getstate', Val, smt.Bool)
    rp = z3.Function('getstate_has_remote_param', Val, smt.Bool)
    vk = z3.Function('getstate_has_var_keyword', Val, smt.Bool)
    mro = z3.Function('mro_of', Val, SeqVal)

    def red(k):
        return z3.Or(red_ex(k), red_(k))

    def remote(k):
        return z3.And(gs(k), rp(k))

    def plain(k):
        return z3.And(gs(k), z3.Not(rp(k)), z3.Not(vk(k)))

    def ty_hint(I, name):
        return VSym(I.ex.fresh(name, Val), hint=('abs', 'Ty'))

    def classes():
        def mro_attr(I, o):
            exx = I.ex
            full = mro(o.key)
            exx.assume(z3.Length(full) >= 1)          # object is always last
            r = exx.alloc(HSymList(full))
            exx.heap[r.addr].elem_hint = ('abs', 'Ty')
            return r

        def dict_get(ex_, a, k):
            d, name = a[0], a[1]
            if not isinstance(name, VStr):
                raise Undecided('type __dict__.get with a non-constant name')
            if name.s == '__reduce_ex__':
                return VBool(red_ex(d.key))
            if name.s == '__reduce__':
                return VBool(red_(d.key))
            if name.s == '__getstate__':
                if ex_.branch(gs(d.key), 'defines __getstate__'):
                    return VAbs('Fn', d.key)
                return NONE
            raise Undecided(f'type __dict__.get({name.s!r})')
        ty = AbsClass('Ty', fields={}, methods={}, attrs={'__mro__': mro_attr, '__dict__': lambda I, o: VAbs('TyDict', o.key), '__name__': lambda I, o: VStr('<str>')},
                      text='a type object seen through reflection: __mro__, __dict__.get(name), __name__')
        tyd = AbsClass('TyDict', fields={}, methods={'get': dict_get}, text='the __dict__ of a type object')
        fn = AbsClass('Fn', fields={}, methods={}, text='a function object found in a type __dict__')
        sig = AbsClass('Sig', fields={}, methods={}, attrs={'parameters': lambda I, o: VAbs('Params', o.key)}, text='inspect.signature(f)')
        params = AbsClass('Params', fields={}, methods={'values': lambda ex_, a, k: VAbs('ParamVals', a[0].key)}, text='signature.parameters')
        pvals = AbsClass('ParamVals', fields={}, methods={'__list__': lambda ex_, a, k: a[0]}, text='signature.parameters.values(), also after list() / tuple()')
        names = AbsClass('NameList', fields={}, methods={'__contains__': lambda ex_, a, k: VBool(rp(a[0].key)) if isinstance(a[1], VStr) and a[1].s == 'remote'
                                                                  else (_ for _ in ()).throw(Undecided('membership of another name in the parameter names'))},
                         text='[p.name for p in signature.parameters.values()]')
        kinds = AbsClass('KindList', fields={}, methods={'__contains__': lambda ex_, a, k: VBool(vk(a[0].key)) if isinstance(a[1], VExt) and a[1].name.endswith('VAR_KEYWORD')
                                                                  else (_ for _ in ()).throw(Undecided('membership of another kind in the parameter kinds'))},
                         text='[p.kind for p in signature.parameters.values()]')
        return {'Ty': ty, 'TyDict': tyd, 'Fn': fn, 'Sig': sig, 'Params': params, 'ParamVals': pvals, 'NameList': names, 'KindList': kinds}

    def setup(ex_, env):
        I = ex_.interp
        ex_.abs_classes.update(classes())
        ex_.ext_models['inspect.signature'] = lambda ex2, a, k: VAbs('Sig', a[0].key)
        t0 = ex_.fresh('t0', Val)
        env['t'] = VAbs('Ty', t0)
        env['cls'] = VClass(repo.cls(SRGS))
        sup = ex_.alloc(HSymList(ex_.fresh('supported_classes', SeqVal)))
        cache = ex_.alloc(HSymDict(ex_.fresh('cache_dom', z3.ArraySort(Val, smt.Bool)), ex_.fresh('cache_map', z3.ArraySort(Val, Val))))
        ex_.class_attrs[(META, 'supported_classes')] = sup
        ex_.class_attrs[(META, '_cls_check_cache')] = cache
        env['sup'], env['cache'] = sup, cache
        env['sup0'] = VSeq(ex_.heap[sup.addr].seq)
        env['cache_dom0'], env['cache_map0'] = ex_.heap[cache.addr].dom, ex_.heap[cache.addr].map
        ex_.ghost['cnt_track'] = [lower(env['t'], ex_)]
        ex_.ghost['keyerror_forks'] = True

        def comp_hook(I2, e, fr):
            # [p.name for p in <the parameters>] / [p.kind for p in <the parameters>], however the parameters are reached
            it = I2.eval(e.generators[0].iter, fr)
            attr = e.elt.attr if isinstance(e.elt, ast.Attribute) else None
            if not (isinstance(it, VAbs) and it.cls == 'ParamVals') or attr not in ('name', 'kind') or e.generators[0].ifs:
                raise Undecided('a comprehension over the signature parameters other than their names / kinds')
            return VAbs('NameList' if attr == 'name' else 'KindList', it.key)
        ex_.ghost['__comp_hooks__'] = {(CHK, 'list', i): comp_hook for i in range(4)}
        # representation invariant of the metaclass: only types whose cached answer exists are registered
        tl = lower(env['t'], ex_)
        ex_.assume(z3.Implies(z3.Contains(ex_.heap[sup.addr].seq, z3.Unit(tl)), z3.Select(ex_.heap[cache.addr].dom, tl)))

    def key_at(P, j):
        return Val.vakey(P[j])

    def prefix_inv(c):
        ex_ = c.ex
        P, i = c.env['__seq__'].e, c.env['__i__'].e
        j, j2 = z3.Int('j'), z3.Int('j2')
        has_remote, allow = c.env['has_remote'].e, c.env['allow_remote'].e
        A = z3.ForAll([j], z3.Implies(z3.And(0 <= j, j < i), z3.Not(red(key_at(P, j)))))
        B = has_remote == z3.Exists([j], z3.And(0 <= j, j < i, remote(key_at(P, j))))
        C = allow == z3.ForAll([j], z3.Implies(z3.And(0 <= j, j < i), z3.Not(plain(key_at(P, j)))))
        D = z3.ForAll([j, j2], z3.Implies(z3.And(0 <= j2, j2 < j, j < i, remote(key_at(P, j))), z3.Not(plain(key_at(P, j2)))))
        return z3.And(A, B, C, D, c.env['__seq__'].e == ex_.ghost['__mro_prefix__'])
    prefix_inv.__doc__ = ('for the classes visited so far: none defines a reduce hook; has_remote == one of them is remote; allow_remote == none of them is plain; '
                          'no remote class is preceded by a plain one')

    def post(c):
        ex_ = c.ex
        t = lower(c.env['t'], ex_)
        r = c.env['result']
        rb = r.e if isinstance(r, VBool) else Val.vb(lower(r, ex_))
        cache = ex_.heap[c.env['cache'].addr]
        sup = ex_.heap[c.env['sup'].addr].seq
        dom0, map0, sup0 = c.env['cache_dom0'], c.env['cache_map0'], c.env['sup0'].e
        cached = z3.Select(dom0, t)
        P = ex_.ghost['__mro_prefix__']
        j, j2 = z3.Int('j'), z3.Int('j2')
        hit = z3.And(lower(r, ex_) == z3.Select(map0, t), cache.dom == dom0, cache.map == map0, sup == sup0)
        n = z3.Length(P)
        spec = z3.And(z3.ForAll([j], z3.Implies(z3.And(0 <= j, j < n), z3.Not(red(key_at(P, j))))),
                      z3.Exists([j], z3.And(0 <= j, j < n, remote(key_at(P, j)))))
        miss = z3.And(rb == spec,
                      cache.dom == z3.Store(dom0, t, True), cache.map == z3.Store(map0, t, Val.v_bool(rb)),
                      sup == z3.If(rb, z3.Concat(sup0, z3.Unit(t)), sup0),
                      # a chain without reduce hooks that was accepted without a Warning is consistent
                      z3.Implies(z3.ForAll([j], z3.Implies(z3.And(0 <= j, j < n), z3.Not(red(key_at(P, j))))),
                                 z3.ForAll([j, j2], z3.Implies(z3.And(0 <= j2, j2 < j, j < n, remote(key_at(P, j))), z3.Not(plain(key_at(P, j2)))))))
        return z3.If(cached, hit, miss)
    post.__doc__ = ('a cached answer is returned as it is and nothing changes; otherwise the answer is True exactly when no class of t.__mro__[:-1] defines a reduce hook and '
                    'one of them has a __getstate__ with a remote parameter, it is stored in the cache, and t is appended to supported_classes exactly when it is True')

    def warn_only_if_inconsistent(c):
        ex_ = c.ex
        P = ex_.ghost['__mro_prefix__']
        j, j2 = z3.Int('j'), z3.Int('j2')
        n = z3.Length(P)
        return z3.Exists([j, j2], z3.And(0 <= j2, j2 < j, j < n, remote(key_at(P, j)), plain(key_at(P, j2))))
    warn_only_if_inconsistent.__doc__ = 'Warning is raised only if some class with a remote-aware __getstate__ is preceded in the MRO by one whose __getstate__ cannot take the flag'

    def warn_leaves_no_verdict(c):
        ex_ = c.ex
        cache = ex_.heap[c.env['cache'].addr]
        sup = ex_.heap[c.env['sup'].addr].seq
        return z3.And(warn_only_if_inconsistent(c), cache.dom == c.env['cache_dom0'], cache.map == c.env['cache_map0'], sup == c.env['sup0'].e)
    warn_leaves_no_verdict.__doc__ = (warn_only_if_inconsistent.__doc__ + '; and a rejection leaves NO verdict behind - neither in the cache nor in supported_classes - so '
                                      'that the same class is rejected again the next time it is dumped (a cached False would let the second dump fall back to the '
                                      'standard reduce and serialise the object silently, without the remote flag)')

    def su(ex_, env):
        setup(ex_, env)
        # the sequence the loop runs over is t.__mro__ without its last element
        full = mro(env['t'].key)
        pre = ex_.fresh('mro_prefix', SeqVal)
        last = ex_.fresh('mro_last', Val)
        ex_.assume(full == z3.Concat(pre, z3.Unit(last)))
        ex_.ghost['__mro_prefix__'] = pre
    con = Contract(CHK, lid='L3', name='C13.L3 what opting in means: __check_type_cached against the specification over the MRO (reduce hooks win, a remote-aware __getstate__ opts in, inconsistent chains warn)',
                   params={'cls': ('const', None), 't': ('const', None)}, self_class=META, setup=su,
                   ensures=[post], raises={'Warning': warn_leaves_no_verdict}, raises_only=['Warning'],
                   loops={0: Loop(invariant=[prefix_inv], variant='__n__ - __i__', modifies=[],
                                  locals={'allow_remote': 'bool', 'has_remote': 'bool', 'first_not_remote': ty_hint})},
                   options={'keyerror_forks': True})
    return [(con, None)]


# ------------------------------------------------------------------------------ replay on the real code
def replay(ob, repo):
    from pyvc.native import run_script
    r = run_script('c13_native.py', {'lemma': ob['lemma']}, repo, timeout=60)
    return bool(r.get('violates')), r


def replay_file(path, repo):
    import json
    from pyvc.native import run_script
    r = run_script('c13_native.py', {}, repo, timeout=60)
    print(json.dumps(r, indent=1, default=str))
    if r.get('violates'):
        print(f'VIOLATION property=C13 replay={path}')
        return 1
    return 0
