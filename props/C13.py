"""C13 - remote_pickle is invisible to code that does not opt in.

By T6 a pickle.Pickler subclass that overrides nothing but __init__ differs from the standard pickler only through the
dispatch table it installs, and a pickler whose dispatch_table attribute is set consults ONLY that table instead of
copyreg.dispatch_table.  So "for any graph of non-opt-in classes the result equals standard pickle's" reduces to a
statement about one map, for all keys (types are an uninterpreted sort with the predicates is_type / optin).
"""
import pickle
import z3

from pyvc import smt, extlib
from pyvc.smt import Val, SeqVal
from pyvc.values import *  # noqa
from pyvc.contracts import Contract, Loop
from pyvc.core import Undecided

ID = 'C13'
MIN_OBLIGATIONS = 12
RP = 'pyworkers._remote_pickle.remote_pickler_3_6.RemotePickler36'
DT = 'pyworkers._remote_pickle.remote_pickler_3_6.dyn_dispatch_table'
SRGS = 'pyworkers.remote_pickle.SupportRemoteGetState'
META = 'pyworkers.remote_pickle.SupportRemoteGetStateMeta'
optin = z3.Function('optin', Val, smt.Bool)          # issubclass(T, SupportRemoteGetState)

TRUSTED = [
    'T6 a pickle.Pickler whose dispatch_table attribute is set consults only that table in place of copyreg.dispatch_table; '
    'the C pickler looks a non-exact-dict table up with __getitem__ (KeyError = no entry); reduction via the table entry of '
    'type(obj) precedes __reduce_ex__; a Pickler subclass overriding only __init__ behaves otherwise as pickle.Pickler',
    'SupportRemoteGetState.supported_classes contains only opt-in classes (what the metaclass registers; its MRO loop is not under contract in this round)',
]
ASSUMPTIONS = [
    'L3 (the metaclass MRO loop: registration iff opt-in, Warning on inconsistent chains) is NOT verified in this round; it enters as the assumption that supported_classes holds only opt-in types',
    'L4 (remote_loads with no patches performs plain pickle.loads inside a RemoteState.context) is covered by C15.L3/L4',
    'the reduction of the property to the dispatch-table map is the pen-and-paper step stated in the module docstring',
]
ABSTRACTED = ['pickle.Pickler.__init__: no-op (external)']

MUTANTS = [
    (RP.replace('.RemotePickler36', '').replace('.', '/') + '.py', "            self.dispatch_table[cls] = self.remote_reduce\n", "            self.dispatch_table[cls] = self.remote_reduce\n            self.dispatch_table[int] = self.remote_reduce\n", 'a non-opt-in type is routed to remote_reduce'),
    (RP.replace('.RemotePickler36', '').replace('.', '/') + '.py', "                if issubclass(key, SupportRemoteGetState):\n                    return self.method\n", "                return self.method\n", 'every type missing from the table is treated as opt-in'),
    (RP.replace('.RemotePickler36', '').replace('.', '/') + '.py', "        if key not in self:\n", "        if key in self:\n", 'dynamic lookup inverted'),
    (RP.replace('.RemotePickler36', '').replace('.', '/') + '.py', "        self._remote = remote\n", "        self._remote = True\n", 'remote flag ignored'),
]


def build(ex):
    extlib.install_common(ex)
    repo = ex.repo
    ex.ext_models['pickle.Pickler.__init__'] = lambda ex_, a, k: NONE
    is_type = z3.Function('is_type', Val, smt.Bool)

    def issubclass_hook(ex_, c, t):
        if isinstance(t, VClass) and t.ci.qualname == SRGS and isinstance(c, VSym):
            return VBool(optin(c.t))
        raise Undecided(f'issubclass({c!r}, {t!r})')

    def common_setup(ex_, env):
        ex_.ghost['__issubclass__'] = issubclass_hook
        ex_.ghost['__istype_pred__'] = is_type
        ex_.ghost['__dict_subclass_symbolic__'] = True
        ex_.ghost['keyerror_forks'] = True
        cr = ex_.alloc(HSymDict(ex_.fresh('copyreg_dom', z3.ArraySort(Val, smt.Bool)), ex_.fresh('copyreg_map', z3.ArraySort(Val, Val))))
        ex_.ghost['__extconst__'] = {'copyreg.dispatch_table': cr}
        env['CR'] = cr
        T0 = ex_.fresh('T0', Val)
        env['T0'] = VSym(T0)
        sup = ex_.alloc(HSymList(ex_.fresh('supported_classes', SeqVal)))
        hs = ex_.heap[sup.addr]
        hs.elem_fact = lambda ex2, term: ex2.assume(z3.And(optin(term), is_type(term)))
        ex_.class_attrs[(META, 'supported_classes')] = sup
        env['supported'] = sup

    # ------------------------------------------------------------ L1a: the table installed by __init__
    def table_of(c):
        ex_ = c.ex
        h = ex_.heap[c.env['self'].addr]
        tv = h.attrs['dispatch_table']
        th = ex_.heap[tv.addr]
        if isinstance(th, HObj):
            th = ex_.heap[th.attrs['__dictdata__'].addr]
        return th

    def agrees_with_copyreg(c):
        ex_ = c.ex
        th = table_of(c)
        cr = ex_.heap[c.env['CR'].addr]
        T0 = c.env['T0'].t
        same = z3.And(z3.Select(th.dom, T0) == z3.Select(cr.dom, T0),
                      z3.Implies(z3.Select(cr.dom, T0), z3.Select(th.map, T0) == z3.Select(cr.map, T0)))
        return z3.Implies(z3.Not(optin(T0)), same)
    agrees_with_copyreg.__doc__ = ('for an arbitrary type T0 that does not opt in: the pickler\'s table has an entry for T0 exactly when '
                                   'copyreg.dispatch_table has one, and it is the same reducer')

    def init_contract(remote):
        def setup(ex_, env):
            common_setup(ex_, env)
            env['self'] = ex_.alloc(HObj(repo.cls(RP), {}))
            env['args'] = VTuple([ex_.interp.sym('file')])
            env['kwargs'] = ex_.alloc(HDict({}))
            env['remote'] = VBool(remote)
        tag = 'remote' if remote else 'local'
        def table_loc(ex_, fr, env):
            tv = ex_.heap[env['self'].addr].attrs['dispatch_table']
            th = ex_.heap[tv.addr]
            if isinstance(th, HObj):
                return ('obj', th.attrs['__dictdata__'].addr)
            return ('obj', tv.addr)
        mods = [table_loc]
        return Contract(
            RP + '.__init__', lid=f'L1a-{tag}',
            name=f'C13.L1a-{tag} RemotePickler(remote={remote}): the installed dispatch table agrees with copyreg.dispatch_table on every non-opt-in type',
            params={'self': ('const', None), 'args': ('const', None), 'remote': ('const', None), 'kwargs': ('const', None)},
            self_class=RP, setup=setup,
            ensures=[agrees_with_copyreg, 'self._remote == remote'],
            raises={}, raises_only=[],
            loops={0: Loop(invariant=[agrees_with_copyreg], modifies=mods, variant='__n__ - __i__')},
            options={'__attr_kinds__': {'dispatch_table': 'symdict'}})

    # ------------------------------------------------------------ L1b / L2: dynamic lookup
    def getitem_setup(ex_, env):
        common_setup(ex_, env)
        d = ex_.alloc(HSymDict(ex_.fresh('tbl_dom', z3.ArraySort(Val, smt.Bool)), ex_.fresh('tbl_map', z3.ArraySort(Val, Val))))
        m = ex_.interp.sym('method')
        env['self'] = ex_.alloc(HObj(repo.cls(DT), {'__dictdata__': d, 'method': m}))
        env['D'] = d
        env['m'] = m

    def getitem_result(c):
        ex_ = c.ex
        d = ex_.heap[c.env['D'].addr]
        k = c.env['key'].t
        r = lower(c.env['result'], ex_)
        return z3.Or(z3.And(z3.Select(d.dom, k), r == z3.Select(d.map, k)),
                     z3.And(z3.Not(z3.Select(d.dom, k)), is_type(k), optin(k), r == c.env['m'].t))
    getitem_result.__doc__ = 'returns the stored reducer if there is one, else the remote reducer exactly for opt-in types'

    def keyerror_only_for_unknown(c):
        ex_ = c.ex
        d = ex_.heap[c.env['D'].addr]
        k = c.env['key'].t
        return z3.And(z3.Not(z3.Select(d.dom, k)), z3.Not(z3.And(is_type(k), optin(k))))
    keyerror_only_for_unknown.__doc__ = 'KeyError only for a key without entry that is not an opt-in type (as a plain dict would)'

    L1b = Contract(
        DT + '.__getitem__', lid='L1b', name='C13.L1b/L2 dyn_dispatch_table lookup: plain dict lookup except that opt-in types get the remote reducer',
        params={'self': ('const', None), 'key': 'any'}, self_class=DT, setup=getitem_setup,
        ensures=[getitem_result], raises={'KeyError': keyerror_only_for_unknown}, raises_only=['KeyError'])

    # ------------------------------------------------------------ structural obligation
    def struct_setup(ex_, env):
        common_setup(ex_, env)
        ci = repo.cls(RP)
        own = set(ci.methods) | set(ci.attrs)
        pick = set(dir(pickle.Pickler)) | {'save', 'reducer_override', 'persistent_id', 'dump', 'memoize', 'clear_memo', 'dispatch'}
        overridden = sorted((own & pick) - {'__init__'})
        env['n_overridden'] = VInt(len(overridden))
        ex_.note('overridden:' + ','.join(overridden))
        env['obj'] = ex_.interp.sym('obj')
        ex_.ghost['__typeof__'] = lambda ex2, v: VSym(ex2.fresh('type_of_obj', Val))
    Ls = Contract(
        RP + '.subject_to_custom_reduce', lid='Ls',
        name='C13.Ls RemotePickler36 overrides no pickle.Pickler attribute other than __init__ (structural, re-read from the class body each run)',
        params={'obj': ('const', None)}, self_class=RP, setup=struct_setup,
        ensures=['n_overridden == 0'], raises={}, raises_only=[])
    return [(init_contract(True), None), (init_contract(False), None), (L1b, None), (Ls, None)]


# ------------------------------------------------------------------------------ replay on the real code
def replay(ob, repo):
    from pyvc.native import run_script
    r = run_script('c13_native.py', {'lemma': ob['lemma']}, repo, timeout=60)
    return bool(r.get('violates')), r


def replay_file(path, repo):
    import json
    from pyvc.native import run_script
    r = run_script('c13_native.py', {}, repo, timeout=60)
    print(json.dumps(r, indent=1, default=str))
    if r.get('violates'):
        print(f'VIOLATION property=C13 replay={path}')
        return 1
    return 0
