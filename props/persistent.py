"""Shared contracts for the persistent workers (cones of C05, C06, C07's worker interface).

Child side: the three do_work loops with _send_result, run and the target as an uninterpreted function.
"""
import z3

from pyvc import smt
from pyvc.smt import Val, ValList, SeqVal
from pyvc.values import *  # noqa
from pyvc.contracts import Contract, Loop
from . import common
from .common import apply_f, dict_update_f

KINDS = {
    'thread': 'pyworkers.persistent_thread.PersistentThreadWorker',
    'process': 'pyworkers.persistent_process.PersistentProcessWorker',
    'remote': 'pyworkers.persistent_remote.PersistentRemoteWorker',
}


def pair_or_none(ex, x, ipos):
    """channel invariant 7 (argument channel): every message is None or an (args, kwargs) pair"""
    lst = Val.vitems(x)
    is_pair = z3.And(Val.is_v_tup(x), ValList.is_vl_cons(lst), ValList.is_vl_cons(ValList.vl_tl(lst)),
                     ValList.is_vl_nil(ValList.vl_tl(ValList.vl_tl(lst))))
    return z3.Or(x == Val.v_none, is_pair)


def fst(x):
    return ValList.vl_hd(Val.vitems(x))


def snd(x):
    return ValList.vl_hd(ValList.vl_tl(Val.vitems(x)))


def merge_args(ex, d, a):
    """spec: enqueued positionals replace the leading default positionals: a ++ d[min(|a|,|d|):]"""
    n = z3.If(z3.Length(a) < z3.Length(d), z3.Length(a), z3.Length(d))
    d1, d2 = ex.interp.take_drop(d, n)
    return z3.Concat(a, d2)


def expected_msg(ex, env, k, inq):
    """the k-th (0-based) result message the child must write, from the property text"""
    I = ex.interp
    x = inq[k]
    Da = env['D_a'].e
    Dk = env['D_k'].t
    tgt = env['target'].t
    args = merge_args(ex, Da, smt.seq_of(fst(x)))
    kw = dict_update_f(Dk, snd(x))
    val = z3.If(tgt == Val.v_none, Val.v_none, apply_f(tgt, args, kw))
    wid = Val.v_tup(smt.mk_list([env['host'].t, env['pid'].t, env['tid'].t]))
    return Val.v_tup(smt.mk_list([Val.v_int(env['c0'].e + k + 1), Val.v_bool(z3.BoolVal(True)), val, wid]))


def child_object(ex, kind, env, args_kind='list', results='LocalPipe'):
    """symbolic child-side state of a persistent worker about to run do_work"""
    I = ex.interp
    ci = ex.repo.cls(KINDS[kind])
    host, pid, tid = I.sym('host'), I.sym('pid'), I.sym('tid')
    target = I.sym('target')
    Da = ex.fresh('D_a', SeqVal)
    Dk = ex.fresh('D_k', Val)
    c0 = ex.fresh('c0', smt.Int)
    ex.assume(c0 >= 0)
    if args_kind == 'list':
        args = ex.alloc(HSymList(Da))
    else:
        args = VSeq(Da)
    kwargs = common.new_odict(ex, Dk)
    attrs = {'_target': target, '_args': args, '_kwargs': kwargs, '_host': host, '_pid': pid, '_tid': tid,
             '_counter': VInt(c0), '_stop': I.sym('stop0', 'bool'), '_name': I.sym('name'), '_userid': I.sym('userid'),
             '_started': VBool(True), '_user_state': I.sym('user_state'), '_cleaned_up': VBool(False)}
    env.update(host=host, pid=pid, tid=tid, target=target, D_a=VSeq(Da), D_k=VSym(Dk), c0=VInt(c0))
    if kind == 'thread':
        ap, aends = common.make_pipe(ex, 'args', 'LocalPipe')
        attrs['_args_pipe'] = ap
        env['argq'] = aends['q']
    elif kind == 'process':
        ap, aends = common.make_pipe(ex, 'args', 'Pipe')
        attrs['_args_pipe'] = ap
        env['argq'] = aends['child']
    if kind in ('thread', 'process'):
        rp, rends = common.make_pipe(ex, 'results', results if kind == 'thread' else 'Pipe')
        attrs['_results_pipe'] = rp
        env['resq'] = rends['q'] if 'q' in rends else rends['child']
    if kind == 'remote':
        s = common.new_chan(ex, 'Conn', 'sock')
        attrs['_socket'] = s
        attrs['_remote_side'] = VBool(True)
        attrs['_is_backend'] = VBool(True)
        env['argq'] = s
        env['resq'] = s
    self_v = ex.alloc(HObj(ci, attrs))
    env['self'] = self_v
    ex.ghost['calls'] = z3.Empty(SeqVal)
    k0 = ex.fresh('k0', smt.Int)
    env['k0'] = VInt(k0)
    return self_v


def spec_functions(ex):
    def exp(se, k):
        q = se.env['argq']
        inq = z3.Select(se.absfield(q.cls, 'inq'), q.key)
        return VSym(expected_msg(ex, se.env, k.e, inq))
    ex.spec_functions['expected'] = exp
    ex.spec_functions['is_pair'] = lambda se, x: VBool(z3.And(x.t != Val.v_none, pair_or_none(ex, x.t, None)))


def do_work_contract(ex, kind, lid, results='LocalPipe', args_kind='list'):
    cls = KINDS[kind]
    qcls = {'thread': 'Queue', 'process': 'Conn', 'remote': 'Conn'}[kind]
    rcls = 'Queue' if (kind == 'thread' and results == 'LocalPipe') else 'Conn'
    mods = ['self._counter', f'abs:{qcls}.ipos', f'abs:{rcls}.out', 'ghost:calls', 'abs:ODict.content']
    if qcls != rcls:
        pass
    loop = Loop(
        invariant=['argq.ipos >= 0 and argq.ipos <= len(argq.inq)',
                   'self._counter == c0 + argq.ipos',
                   'len(resq.out) == argq.ipos',
                   'self._kwargs.content == D_k',
                   'implies(0 <= k0 and k0 < argq.ipos, resq.out[k0] == expected(k0))',
                   'implies(0 <= k0 and k0 < argq.ipos, is_pair(argq.inq[k0]))'],
        modifies=mods)

    def setup(ex_, env):
        child_object(ex_, kind, env, args_kind=args_kind, results=results)

    return Contract(
        cls + '.do_work', lid=lid,
        name=f'C05.{lid} {kind} do_work: one target call per input, in order, merged arguments, pristine defaults '
             f'({args_kind} defaults, results over {results})',
        params={'self': ('const', None)}, self_class=cls, setup=setup,
        ensures=['result == self._counter',
                 'self._kwargs.content == D_k',
                 'len(resq.out) == self._counter - c0',
                 'implies(0 <= k0 and k0 < len(resq.out), resq.out[k0] == expected(k0))',
                 'implies(0 <= k0 and k0 < len(resq.out), is_pair(argq.inq[k0]))',
                 'argq.ipos <= len(resq.out) + 1'],
        raises={'AnyException': None, 'WorkerTerminatedError': None, 'AnyBaseException': None},
        raises_only=['AnyException', 'WorkerTerminatedError', 'AnyBaseException'],
        all_exits=['len(resq.out) <= argq.ipos',
                   'implies(0 <= k0 and k0 < len(resq.out), resq.out[k0] == expected(k0))'],
        loops={0: loop},
        options={'__opaque_call__': common.opaque_call,
                 'target_raises': ['AnyException', 'WorkerTerminatedError', 'AnyBaseException'],
                 'chan_elem_inv': {'args.q': pair_or_none, 'args.child': pair_or_none, 'sock': pair_or_none},
                 '__call_hooks__': common.MSG_HOOKS,
                 'recv_closed_check': False})
